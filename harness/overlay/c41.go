package main

import (
	"context"
	"fmt"
	"sort"

	"verif/engine/hmain"
	"verif/engine/report"
)

func init() {
	props["C41"] = hmain.Prop{Level: "model_checking", Run: c41}
}

func c41(c *report.Check) {
	tb, err := extractTables(context.Background())
	if err != nil {
		c.Internal(err.Error())
		return
	}
	for _, in := range allInits {
		for _, dl := range allDialers {
			cfg := mconfig{in, dl}
			g, err := explore(cfg, tb)
			if err != nil {
				c.Internal(err.Error())
				return
			}
			nq := 0
			outs := map[string]int{}
			viol := map[string]int{}
			first := map[string]int{}
			for i := range g.states {
				if !g.quiet[i] {
					continue
				}
				nq++
				outs[g.states[i].outcome()]++
				cl := g.states[i].clauses(cfg)
				ks := []string{}
				for k := range cl {
					ks = append(ks, k)
				}
				sort.Strings(ks)
				if len(ks) > 0 {
					k := fmt.Sprint(ks)
					viol[k]++
					if _, ok := first[k]; !ok {
						first[k] = i
					}
				}
			}
			fmt.Printf("%s states=%d trans=%d quiescent=%d traces=%d outcomes=%d viol=%v\n", cfg, len(g.states), g.trans, nq, g.completeTraces(), len(outs), viol)
			for k, i := range first {
				fmt.Printf("   %s depth=%d: %s\n      => %s %v\n", k, g.depth[i], g.traceString(i), g.states[i].outcome(), g.states[i].clauses(cfg))
			}
			os := []string{}
			for o := range outs {
				os = append(os, o)
			}
			sort.Strings(os)
			for _, o := range os {
				fmt.Printf("      %4d %s\n", outs[o], o)
			}
		}
	}
}

package main

// Real loopback QUIC plumbing for C41: endpoints (UDP socket + quic.Transport + listener),
// real overlay transports on top of them, and observation wrappers around the two
// interfaces the overlay transport takes from its environment (QuicDialer, q.Listener).

import (
	"context"
	"crypto/ecdsa"
	"crypto/elliptic"
	"crypto/rand"
	"crypto/tls"
	"crypto/x509"
	"crypto/x509/pkix"
	"fmt"
	"math/big"
	"net"
	"sync"
	"time"

	"github.com/quic-go/quic-go"
	"go.uber.org/zap"
	"go.uber.org/zap/zapcore"

	"go.miragespace.co/specter/overlay"
	"go.miragespace.co/specter/spec/protocol"

	"verif/harness/overlay/gate"
)

// syncTimeout bounds every wait for an explicit notification (gate arrival, connection
// close, accept). Expiry is always an INTERNAL error, never a verdict.
const syncTimeout = 30 * time.Second

var (
	tlsOnce   sync.Once
	serverTLS *tls.Config
	clientTLS *tls.Config
	tlsErr    error
)

func tlsConfigs() (*tls.Config, *tls.Config, error) {
	tlsOnce.Do(func() {
		key, err := ecdsa.GenerateKey(elliptic.P256(), rand.Reader)
		if err != nil {
			tlsErr = err
			return
		}
		tpl := &x509.Certificate{
			SerialNumber: big.NewInt(41),
			Subject:      pkix.Name{CommonName: "c41"},
			NotBefore:    time.Unix(0, 0),
			NotAfter:     time.Unix(4102444800, 0), // 2100-01-01
			KeyUsage:     x509.KeyUsageDigitalSignature,
			ExtKeyUsage:  []x509.ExtKeyUsage{x509.ExtKeyUsageServerAuth, x509.ExtKeyUsageClientAuth},
			IPAddresses:  []net.IP{net.IPv4(127, 0, 0, 1)},
		}
		der, err := x509.CreateCertificate(rand.Reader, tpl, tpl, &key.PublicKey, key)
		if err != nil {
			tlsErr = err
			return
		}
		cert := tls.Certificate{Certificate: [][]byte{der}, PrivateKey: key}
		serverTLS = &tls.Config{Certificates: []tls.Certificate{cert}, NextProtos: []string{"c41"}}
		clientTLS = &tls.Config{InsecureSkipVerify: true, NextProtos: []string{"c41"}}
	})
	return serverTLS, clientTLS, tlsErr
}

func harnessQuicConfig() *quic.Config {
	return &quic.Config{
		KeepAlivePeriod:      5 * time.Second,
		HandshakeIdleTimeout: 15 * time.Second,
		MaxIdleTimeout:       30 * time.Second,
		MaxIncomingStreams:   500,
		EnableDatagrams:      true,
	}
}

type endpoint struct {
	name string
	udp  *net.UDPConn
	qt   *quic.Transport
	ln   *quic.Listener
	addr string
	ua   *net.UDPAddr
	node *protocol.Node
}

func newEndpoint(name string) (*endpoint, error) {
	srv, _, err := tlsConfigs()
	if err != nil {
		return nil, err
	}
	udp, err := net.ListenUDP("udp4", &net.UDPAddr{IP: net.IPv4(127, 0, 0, 1), Port: 0})
	if err != nil {
		return nil, err
	}
	qt := &quic.Transport{Conn: udp}
	ln, err := qt.Listen(srv, harnessQuicConfig())
	if err != nil {
		udp.Close()
		return nil, err
	}
	ua := udp.LocalAddr().(*net.UDPAddr)
	return &endpoint{name: name, udp: udp, qt: qt, ln: ln, addr: ua.String(), ua: ua, node: &protocol.Node{Address: ua.String()}}, nil
}

func (e *endpoint) close() {
	e.ln.Close()
	e.qt.Close()
	e.udp.Close()
}

// rawDial makes a plain QUIC connection from e to o (no overlay code involved) and returns
// both ends.
func rawDial(ctx context.Context, e, o *endpoint) (atE, atO *quic.Conn, err error) {
	_, cli, _ := tlsConfigs()
	type acc struct {
		c   *quic.Conn
		err error
	}
	ch := make(chan acc, 1)
	actx, cancel := context.WithTimeout(ctx, syncTimeout)
	defer cancel()
	go func() {
		c, err := o.ln.Accept(actx)
		ch <- acc{c, err}
	}()
	atE, err = e.qt.Dial(actx, o.ua, cli.Clone(), harnessQuicConfig())
	if err != nil {
		cancel()
		<-ch
		return nil, nil, fmt.Errorf("dial %s->%s: %w", e.name, o.name, err)
	}
	a := <-ch
	if a.err != nil {
		atE.CloseWithError(0, "harness")
		return nil, nil, fmt.Errorf("accept %s->%s: %w", e.name, o.name, a.err)
	}
	return atE, a.c, nil
}

// obsDialer is the QuicDialer given to the real transport: the endpoint's quic.Transport,
// plus a notification of every connection the transport dials.
type obsDialer struct {
	qt     *quic.Transport
	dialed chan *quic.Conn
}

func (d *obsDialer) DialEarly(ctx context.Context, addr net.Addr, tlsConf *tls.Config, config *quic.Config) (*quic.Conn, error) {
	c, err := d.qt.DialEarly(ctx, addr, tlsConf, config)
	if err == nil {
		d.dialed <- c
	}
	return c, err
}

// obsListener is the q.Listener given to AcceptWithListener: the endpoint's listener, plus
// a notification of every accepted connection.
type obsListener struct {
	ln       *quic.Listener
	accepted chan *quic.Conn
}

func (l *obsListener) Accept(ctx context.Context) (*quic.Conn, error) {
	c, err := l.ln.Accept(ctx)
	if err == nil {
		l.accepted <- c
	}
	return c, err
}
func (l *obsListener) Addr() net.Addr { return l.ln.Addr() }
func (l *obsListener) Close() error   { return l.ln.Close() }

// rpeer is a real overlay transport on an endpoint.
type rpeer struct {
	*endpoint
	t        *overlay.QUIC
	dialed   chan *quic.Conn
	accepted chan *quic.Conn
	lis      *obsListener
	watch    *watchSink
}

// endpointPair makes two endpoints; the first has the lexically lower address iff firstLower.
// (A fix of the simultaneous-open race has to break the tie by comparing identities, so the
// harness controls which peer has the lower one.)
func endpointPair(n1, n2 string, firstLower bool) (*endpoint, *endpoint, error) {
	e1, err := newEndpoint(n1)
	if err != nil {
		return nil, nil, err
	}
	e2, err := newEndpoint(n2)
	if err != nil {
		e1.close()
		return nil, nil, err
	}
	if (e1.addr < e2.addr) != firstLower {
		e1.name, e2.name = n2, n1
		e1, e2 = e2, e1
	}
	return e1, e2, nil
}

func newRPeerOn(e *endpoint) *rpeer {
	_, cli, _ := tlsConfigs()
	p := &rpeer{endpoint: e, dialed: make(chan *quic.Conn, 16), accepted: make(chan *quic.Conn, 16), watch: &watchSink{dir: map[int64]string{}}}
	p.lis = &obsListener{ln: e.ln, accepted: p.accepted}
	p.t = overlay.NewQUIC(overlay.TransportConfig{
		Logger:           zap.New(&watchCore{sink: p.watch}),
		QuicTransport:    &obsDialer{qt: e.qt, dialed: p.dialed},
		Endpoint:         &protocol.Node{Address: e.addr},
		ClientTLS:        cli.Clone(),
		VirtualTransport: true, // the chord transport's configuration: one connection per peer address
	})
	return p
}

func waitCh[T any](ch <-chan T, what string) (T, error) {
	tm := time.NewTimer(syncTimeout)
	defer tm.Stop()
	select {
	case v := <-ch:
		return v, nil
	case <-tm.C:
		var z T
		return z, fmt.Errorf("timed out waiting for %s", what)
	}
}

func waitClosed(c *quic.Conn, what string) error {
	tm := time.NewTimer(syncTimeout)
	defer tm.Stop()
	select {
	case <-c.Context().Done():
		return nil
	case <-tm.C:
		return fmt.Errorf("timed out waiting for close notification of %s", what)
	}
}

func isClosed(c *quic.Conn) bool { return c.Context().Err() != nil }

// closeCode returns the application error code a connection was closed with (-1 if it is
// not an application close).
func closeCode(c *quic.Conn) (code int64, remote bool) {
	err := context.Cause(c.Context())
	if ae, ok := err.(*quic.ApplicationError); ok {
		return int64(ae.ErrorCode), ae.Remote
	}
	return -1, false
}

// watchSink records, per goroutine, the direction field of the close watcher's log line
// ("Connection with peer closed", written by the goroutine handlePeer starts, right before
// it calls reapPeer). The replayer uses it to tell two watchers of one transport apart when
// one step makes both runnable.
type watchSink struct {
	mu  sync.Mutex
	dir map[int64]string
}

func (w *watchSink) get(goid int64) string {
	w.mu.Lock()
	defer w.mu.Unlock()
	return w.dir[goid]
}

type watchCore struct {
	sink *watchSink
	dir  string
}

func (c *watchCore) Enabled(zapcore.Level) bool { return true }
func (c *watchCore) With(fs []zapcore.Field) zapcore.Core {
	n := &watchCore{sink: c.sink, dir: c.dir}
	for _, f := range fs {
		if f.Key == "direction" && f.Type == zapcore.StringType {
			n.dir = f.String
		}
	}
	return n
}
func (c *watchCore) Check(e zapcore.Entry, ce *zapcore.CheckedEntry) *zapcore.CheckedEntry {
	if e.Message == "Connection with peer closed" {
		return ce.AddCore(e, c)
	}
	return ce
}
func (c *watchCore) Write(zapcore.Entry, []zapcore.Field) error {
	g := gate.Goid()
	c.sink.mu.Lock()
	c.sink.dir[g] = c.dir
	c.sink.mu.Unlock()
	return nil
}
func (c *watchCore) Sync() error { return nil }

package main

// C41 part 1: extraction of the decision tables by running the REAL functions
// (reuseConnection, reapPeer) over real loopback QUIC connections against a scripted raw
// QUIC peer, with the cache state set at the snapshot gate (RLock) and again at the
// decision gate (Lock).

import (
	"context"
	"fmt"
	"sort"
	"strings"

	"github.com/quic-go/quic-go"

	"go.miragespace.co/specter/overlay"
	"go.miragespace.co/specter/spec/protocol"
	"go.miragespace.co/specter/spec/rpc"

	"verif/harness/overlay/gate"
)

// rowKey identifies one situation of the negotiation function.
//
//	Dir  : "O" the function runs on the dialer's side, "I" on the acceptor's side
//	Snap : own cache entry seen by the snapshot (RLock): "N" none, "I" cached incoming, "O" cached outgoing
//	Cur  : own cache entry at the decision (Lock): "N" none, "S" the same entry as at the snapshot,
//	       "I"/"O" a different entry (incoming/outgoing)
//	Msg  : cache status received from the peer: <state>/<direction>, C=CACHED F=FRESH U=unknown, I/O/U
type rowKey struct{ Dir, Snap, Cur, Msg string }

func (k rowKey) String() string { return k.Dir + ":" + k.Snap + ">" + k.Cur + ":" + k.Msg }

// rowOut is what the real function did.
type rowOut struct {
	Err        string `json:"err"`         // "" | "retry" (message carries the reuse marker) | "other"
	ErrText    string `json:"err_text"`    //
	Ret        string `json:"ret"`         // "" | "fresh" | "snap" | "cur": which connection was returned
	Reused     bool   `json:"reused"`      //
	CloseFresh bool   `json:"close_fresh"` // the function closed the fresh connection
	CloseSnap  bool   `json:"close_snap"`  // ... the entry seen at the snapshot
	CloseCur   bool   `json:"close_cur"`   // ... the entry present at the decision
	CacheAfter string `json:"cache_after"` // "none" | "fresh" | "snap" | "cur"
	Sent       string `json:"sent"`        // cache status the function sent after its snapshot
}

func (o rowOut) class() string {
	s := o.Err
	if s == "" {
		s = "ok"
	}
	return fmt.Sprintf("%s ret=%s reused=%v closeFresh=%v closeSnap=%v closeCur=%v cache=%s", s, o.Ret, o.Reused, o.CloseFresh, o.CloseSnap, o.CloseCur, o.CacheAfter)
}

type reapOut struct {
	CacheAfter string `json:"cache_after"` // "none" | "kept"
	CloseArg   bool   `json:"close_arg"`
	CloseEntry bool   `json:"close_entry"` // closed the (different) entry present under the lock
	ClosePre   bool   `json:"close_pre"`   // closed the (different) entry present before the lock
}

// reapKinds: "<pre>><lock>": the cache entry when reapPeer is called (before it has the
// lock) and when it gets the lock: N none, S the connection being reaped, X a different
// connection, Y (lock only, pre=X) yet another connection. Code that looks at the cache
// before taking the lock shows up as rows that depend on <pre>.
var reapKinds = []string{"N>N", "N>S", "N>X", "S>N", "S>S", "S>X", "X>N", "X>S", "X>X", "X>Y"}

// reapPreMatters: does any reapPeer row depend on the cache as it was before the lock?
func (tb *tables) reapPreMatters() bool {
	for _, k := range reapKinds {
		lock := k[2:]
		if lock == "Y" {
			lock = "X"
		}
		if tb.Reap[k] != tb.Reap[lock+">"+lock] {
			return true
		}
	}
	return false
}

type tables struct {
	Decide map[rowKey]rowOut
	Sent   map[string]string  // Dir+Snap -> message sent
	Reap   map[string]reapOut // see reapKinds
	Rows   int
}

// tablePair: the tables of a transport whose address is lower ([0]) / higher ([1]) than its
// peer's. On a tree without an identity tie-break both are identical.
type tablePair struct {
	T       [2]*tables
	Same    bool
	Rows    int
	ReapPre bool // some reapPeer row depends on the cache as read before the lock
}

// of returns the tables peer s decides by under the given address order.
func (tp *tablePair) of(s int, order string) *tables {
	aLower := order != "B<A"
	if (s == pA) == aLower {
		return tp.T[0]
	}
	return tp.T[1]
}

func (tb *tables) equal(o *tables) bool {
	if len(tb.Decide) != len(o.Decide) || len(tb.Sent) != len(o.Sent) || len(tb.Reap) != len(o.Reap) {
		return false
	}
	for k, v := range tb.Decide {
		w := o.Decide[k]
		v.ErrText, w.ErrText = "", ""
		if v != w {
			return false
		}
	}
	for k, v := range tb.Sent {
		if o.Sent[k] != v {
			return false
		}
	}
	for k, v := range tb.Reap {
		if o.Reap[k] != v {
			return false
		}
	}
	return true
}

func extractTablePair(ctx context.Context) (*tablePair, error) {
	tp := &tablePair{}
	for i, lower := range []bool{true, false} {
		tb, err := extractTables(ctx, lower)
		if err != nil {
			return nil, err
		}
		tp.T[i] = tb
		tp.Rows += tb.Rows
	}
	tp.Same = tp.T[0].equal(tp.T[1])
	tp.ReapPre = tp.T[0].reapPreMatters() || tp.T[1].reapPreMatters()
	return tp, nil
}

var (
	allDirs  = []string{"O", "I"}
	allSnaps = []string{"N", "I", "O"}
	validMsg = []string{"C/I", "C/O", "F/I", "F/O"}
	badMsg   = []string{"U/I", "C/U", "F/U"}
)

func cursFor(snap string) []string {
	if snap == "N" {
		return []string{"N", "I", "O"}
	}
	return []string{"S", "N", "I", "O"}
}

func encodeMsg(m *protocol.Connection) string {
	s := "U"
	switch m.GetCacheState() {
	case protocol.Connection_CACHED:
		s = "C"
	case protocol.Connection_FRESH:
		s = "F"
	}
	d := "U"
	switch m.GetCacheDirection() {
	case protocol.Connection_INCOMING:
		d = "I"
	case protocol.Connection_OUTGOING:
		d = "O"
	}
	return s + "/" + d
}

func decodeMsg(s string) *protocol.Connection {
	m := &protocol.Connection{}
	switch s[0] {
	case 'C':
		m.CacheState = protocol.Connection_CACHED
	case 'F':
		m.CacheState = protocol.Connection_FRESH
	}
	switch s[2] {
	case 'I':
		m.CacheDirection = protocol.Connection_INCOMING
	case 'O':
		m.CacheDirection = protocol.Connection_OUTGOING
	}
	return m
}

type extractor struct {
	ctx  context.Context
	T    *rpeer
	P    *endpoint
	ctl  *gate.Controller
	key  string
	peer *protocol.Node
	// spare live connections usable as cache entries, by who dialed
	spare map[bool][]*quic.Conn
	all   []*quic.Conn
}

func newExtractor(ctx context.Context, tLower bool) (*extractor, error) {
	te, P, err := endpointPair("T", "P", tLower)
	if err != nil {
		return nil, err
	}
	T := newRPeerOn(te)
	x := &extractor{ctx: ctx, T: T, P: P, ctl: gate.NewController(), spare: map[bool][]*quic.Conn{}}
	x.peer = &protocol.Node{Address: P.addr}
	x.key = T.t.VerifKey(x.peer)
	x.ctl.Own(T.t.VerifMutex())
	return x, nil
}

func (x *extractor) close() {
	x.ctl.Drain()
	for _, c := range x.all {
		c.CloseWithError(0, "harness")
	}
	x.T.t.Stop()
	x.T.close()
	x.P.close()
}

// conn makes a real connection between T and P; returns both ends.
func (x *extractor) conn(dialedByT bool) (atT, atP *quic.Conn, err error) {
	if dialedByT {
		atT, atP, err = rawDial(x.ctx, x.T.endpoint, x.P)
	} else {
		atP, atT, err = rawDial(x.ctx, x.P, x.T.endpoint)
	}
	if err == nil {
		x.all = append(x.all, atT, atP)
	}
	return
}

// entry returns a live T-side connection to use as a cache entry with the given direction
// label ("I" = dialed by P).
func (x *extractor) entry(dir string, not *quic.Conn) (*quic.Conn, error) {
	byT := dir == "O"
	for _, c := range x.spare[byT] {
		if c != not && !isClosed(c) {
			return c, nil
		}
	}
	c, _, err := x.conn(byT)
	if err != nil {
		return nil, err
	}
	x.spare[byT] = append(x.spare[byT], c)
	return c, nil
}

func (x *extractor) expect(fn, mode, phase string) (*gate.Event, error) {
	ev, err := waitCh(x.ctl.Events, fmt.Sprintf("gate event %s/%s/%s", fn, mode, phase))
	if err != nil {
		return nil, err
	}
	if ev.Func != fn || ev.Mode != mode || ev.Phase != phase {
		return nil, fmt.Errorf("unexpected gate event %s/%s/%s (wanted %s/%s/%s)", ev.Func, ev.Mode, ev.Phase, fn, mode, phase)
	}
	return ev, nil
}

func (x *extractor) setCache(c *quic.Conn, dir string) {
	if c == nil {
		x.T.t.VerifCacheDel(x.key)
		return
	}
	x.T.t.VerifCacheSet(x.key, x.peer, c, dir == "I")
}

type reuseResult struct {
	c      *quic.Conn
	reused bool
	err    error
}

// decideRow runs the real reuseConnection once in the given situation.
func (x *extractor) decideRow(k rowKey) (rowOut, error) {
	var out rowOut
	var snapC, curC *quic.Conn
	var err error
	if k.Snap != "N" {
		if snapC, err = x.entry(k.Snap, nil); err != nil {
			return out, err
		}
	}
	switch k.Cur {
	case "S":
		curC = snapC
	case "I", "O":
		if curC, err = x.entry(k.Cur, snapC); err != nil {
			return out, err
		}
	}
	// fresh connection in the direction under test
	fT, fP, err := x.conn(k.Dir == "O")
	if err != nil {
		return out, err
	}
	defer fT.CloseWithError(0, "harness")
	defer fP.CloseWithError(0, "harness")

	x.setCache(snapC, k.Snap)
	defer x.setCache(nil, "")

	// scripted peer: identity, then the scripted cache status; reads what T sends
	sentCh := make(chan string, 1)
	perr := make(chan error, 1)
	go func() {
		ctx, cancel := context.WithTimeout(x.ctx, syncTimeout)
		defer cancel()
		var s *quic.Stream
		var err error
		if k.Dir == "O" { // T dialed: the acceptor (P) opens the negotiation stream
			s, err = fP.OpenStreamSync(ctx)
		} else {
			s, err = fP.AcceptStream(ctx)
		}
		if err != nil {
			perr <- fmt.Errorf("scripted peer stream: %w", err)
			return
		}
		if err = rpc.Send(s, &protocol.Connection{Identity: &protocol.Node{Address: x.P.addr}, Version: "scripted"}); err != nil {
			perr <- fmt.Errorf("scripted peer send identity: %w", err)
			return
		}
		if err = rpc.Send(s, decodeMsg(k.Msg)); err != nil {
			perr <- fmt.Errorf("scripted peer send status: %w", err)
			return
		}
		var m protocol.Connection
		if err = rpc.BoundedReceive(s, &m, 256); err != nil {
			perr <- fmt.Errorf("scripted peer receive identity: %w", err)
			return
		}
		m.Reset()
		if err = rpc.BoundedReceive(s, &m, 8); err != nil {
			perr <- fmt.Errorf("scripted peer receive status: %w", err)
			return
		}
		sentCh <- encodeMsg(&m)
	}()

	resCh := make(chan reuseResult, 1)
	go func() {
		ctx, cancel := context.WithTimeout(x.ctx, syncTimeout)
		defer cancel()
		var s *quic.Stream
		var err error
		if k.Dir == "O" {
			s, err = fT.AcceptStream(ctx)
		} else {
			s, err = fT.OpenStreamSync(ctx)
		}
		if err != nil {
			resCh <- reuseResult{err: fmt.Errorf("HARNESS stream: %w", err)}
			return
		}
		c, reused, err := x.T.t.VerifReuse(x.ctx, fT, s, k.Dir == "I")
		resCh <- reuseResult{c, reused, err}
	}()

	fail := func(err error) (rowOut, error) {
		x.ctl.Drain() // unblock whatever is parked; the extractor is dead after this
		return out, fmt.Errorf("row %s: %w", k, err)
	}
	ev, err := x.expect("reuse", "R", "arrive")
	if err != nil {
		return fail(err)
	}
	ev.Release()
	if _, err = x.expect("reuse", "R", "done"); err != nil {
		return fail(err)
	}
	select {
	case out.Sent = <-sentCh:
	case e := <-perr:
		return fail(e)
	}
	ev, err = x.expect("reuse", "W", "arrive")
	if err != nil {
		return fail(err)
	}
	// the cache as it is when the decision is taken
	if k.Cur != "S" {
		x.setCache(curC, k.Cur)
	}
	ev.Release()
	if _, err = x.expect("reuse", "W", "done"); err != nil {
		return fail(err)
	}
	r, err := waitCh(resCh, "reuseConnection result")
	if err != nil {
		return fail(err)
	}
	if r.err != nil && strings.HasPrefix(r.err.Error(), "HARNESS") {
		return fail(r.err)
	}
	if r.err != nil {
		out.ErrText = r.err.Error()
		if strings.Contains(out.ErrText, overlay.VerifReuseErrorState) {
			out.Err = "retry"
		} else {
			out.Err = "other"
		}
	}
	out.Reused = r.reused
	switch {
	case r.c == nil:
	case r.c == fT:
		out.Ret = "fresh"
	case r.c == snapC:
		out.Ret = "snap"
	case r.c == curC:
		out.Ret = "cur"
	default:
		return fail(fmt.Errorf("returned an unknown connection"))
	}
	out.CloseFresh = isClosed(fT)
	out.CloseSnap = snapC != nil && isClosed(snapC)
	out.CloseCur = curC != nil && curC != snapC && isClosed(curC)
	got, _, ok := x.T.t.VerifCacheGet(x.key)
	switch {
	case !ok:
		out.CacheAfter = "none"
	case got == fT:
		out.CacheAfter = "fresh"
	case got == snapC:
		out.CacheAfter = "snap"
	case got == curC:
		out.CacheAfter = "cur"
	default:
		return fail(fmt.Errorf("cache holds an unknown connection"))
	}
	return out, nil
}

func (x *extractor) reapRow(kind string) (reapOut, error) {
	var out reapOut
	q, _, err := x.conn(true)
	if err != nil {
		return out, err
	}
	pick := func(k byte, other *quic.Conn) (*quic.Conn, error) {
		switch k {
		case 'S':
			return q, nil
		case 'X':
			if other != nil {
				return other, nil
			}
			c, _, err := x.conn(false)
			return c, err
		case 'Y':
			c, _, err := x.conn(false)
			return c, err
		}
		return nil, nil
	}
	pre, err := pick(kind[0], nil)
	if err != nil {
		return out, err
	}
	var preOther *quic.Conn
	if kind[0] == 'X' {
		preOther = pre
	}
	lock, err := pick(kind[2], preOther)
	if err != nil {
		return out, err
	}
	x.setCache(pre, "O")
	defer x.setCache(nil, "")
	done := make(chan struct{})
	go func() {
		x.T.t.VerifReapPeer(q, x.peer)
		close(done)
	}()
	// the function is parked where it asks for the lock: whatever it read before is stale now
	ev, err := x.expect("reap", "W", "arrive")
	if err != nil {
		x.ctl.Drain()
		return out, err
	}
	x.setCache(lock, "O")
	ev.Release()
	if _, err = x.expect("reap", "W", "done"); err != nil {
		x.ctl.Drain()
		return out, err
	}
	if _, err = waitCh(done, "reapPeer return"); err != nil {
		return out, err
	}
	got, _, ok := x.T.t.VerifCacheGet(x.key)
	out.CacheAfter = "none"
	if ok {
		if got != lock {
			return out, fmt.Errorf("reap row %s: cache holds an unexpected connection", kind)
		}
		out.CacheAfter = "kept"
	}
	out.CloseArg = isClosed(q)
	out.CloseEntry = lock != nil && lock != q && isClosed(lock)
	out.ClosePre = pre != nil && pre != q && pre != lock && isClosed(pre)
	return out, nil
}

// extractTables runs every row on the real code.
func extractTables(ctx context.Context, tLower bool) (*tables, error) {
	x, err := newExtractor(ctx, tLower)
	if err != nil {
		return nil, err
	}
	defer x.close()
	tb := &tables{Decide: map[rowKey]rowOut{}, Sent: map[string]string{}, Reap: map[string]reapOut{}}
	msgs := append(append([]string{}, validMsg...), badMsg...)
	for _, dir := range allDirs {
		for _, snap := range allSnaps {
			for _, cur := range cursFor(snap) {
				for _, msg := range msgs {
					k := rowKey{dir, snap, cur, msg}
					o, err := x.decideRow(k)
					if err != nil {
						return nil, err
					}
					tb.Rows++
					tb.Decide[k] = o
					sk := dir + snap
					if prev, ok := tb.Sent[sk]; ok && prev != o.Sent {
						return nil, fmt.Errorf("status sent after the snapshot is not a function of (direction, snapshot): %s gave %s and %s", sk, prev, o.Sent)
					}
					tb.Sent[sk] = o.Sent
				}
			}
		}
	}
	for _, kind := range reapKinds {
		o, err := x.reapRow(kind)
		if err != nil {
			return nil, err
		}
		tb.Rows++
		tb.Reap[kind] = o
	}
	return tb, nil
}

func (tb *tables) sortedKeys() []rowKey {
	ks := make([]rowKey, 0, len(tb.Decide))
	for k := range tb.Decide {
		ks = append(ks, k)
	}
	sort.Slice(ks, func(i, j int) bool { return ks[i].String() < ks[j].String() })
	return ks
}

// render gives the table as sorted "key => outcome" lines (evidence).
func (tb *tables) render(validOnly bool) []string {
	var out []string
	for _, k := range tb.sortedKeys() {
		if validOnly && strings.Contains(k.Msg, "U") {
			continue
		}
		out = append(out, k.String()+" => "+tb.Decide[k].class())
	}
	return out
}

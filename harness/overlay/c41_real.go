package main

// C41, conformance leg, second half: what happens when the real transports do NOT do what
// the step model predicts. The tables are extracted per critical section, so behaviour that
// depends on something read outside the lock is invisible to the model. A deviation is
// therefore not automatically a machinery error: the trace is driven on to quiescence on
// the real transports (all gates opened) and the three clauses of the statement are
// evaluated on the REAL final state. Only if that state satisfies the statement does the
// deviation remain an internal error ("the model is wrong").

import (
	"fmt"
	"regexp"
	"runtime"
	"sort"
	"strings"
	"time"

	"github.com/quic-go/quic-go"

	"go.miragespace.co/specter/overlay"
)

// goroutineDump returns the stacks of all goroutines of the process.
func goroutineDump() string {
	buf := make([]byte, 1<<20)
	for {
		n := runtime.Stack(buf, true)
		if n < len(buf) {
			return string(buf[:n])
		}
		buf = make([]byte, 2*len(buf))
	}
}

var (
	watcherFrame = regexp.MustCompile(`overlay\.\(\*QUIC\)\.handlePeer\.func\d+\(`)
	activeFrames = []string{
		"overlay.(*QUIC).reuseConnection(",
		"overlay.(*QUIC).handleIncoming(",
		"overlay.(*QUIC).handleOutgoing(",
		"overlay.(*QUIC).reapPeer(",
		"overlay.(*QUIC).getCachedConnection",
		"overlay.(*QUIC).AcceptWithListener.", // the per-connection goroutine (func literal), not the accept loop
	}
)

// overlayActivity counts the goroutines that are inside the negotiation / reap code
// (active) and the close watchers that are not parked on their connection's context any
// more (woken). Both zero = nothing in the transports can change a cache or close a
// connection until some connection is closed from outside.
func overlayActivity(dump string) (active, woken int) {
	for _, g := range strings.Split(dump, "\n\n") {
		isActive := false
		for _, f := range activeFrames {
			if strings.Contains(g, f) {
				isActive = true
				break
			}
		}
		if isActive {
			active++
			continue
		}
		if watcherFrame.MatchString(g) {
			hdr := g
			if i := strings.IndexByte(g, '\n'); i >= 0 {
				hdr = g[:i]
			}
			if !strings.Contains(hdr, "[chan receive") {
				woken++
			}
		}
	}
	return
}

// waitOverlayIdle waits until no goroutine of an earlier replay is inside the overlay code
// any more (the dump is process-wide, so deviations are evaluated one at a time).
func waitOverlayIdle() error {
	deadline := time.Now().Add(syncTimeout)
	for {
		if a, w := overlayActivity(goroutineDump()); a == 0 && w == 0 {
			return nil
		}
		if time.Now().After(deadline) {
			return fmt.Errorf("goroutines of earlier replays are still inside the overlay code")
		}
		time.Sleep(time.Millisecond)
	}
}

// collectConns registers connections dialed / accepted that the gated phase has not
// consumed (retries after the gates were opened).
func (r *replayer) collectConns() {
	for s := 0; s < 2; s++ {
		slots := []int{1 + 2*s, 2 + 2*s} // connections dialed by s
		for {
			var q *quic.Conn
			select {
			case q = <-r.p[s].dialed:
			default:
			}
			if q == nil {
				break
			}
			for _, c := range slots {
				if r.conn[c][s] == nil {
					r.conn[c][s] = q
					break
				}
			}
		}
		for {
			var q *quic.Conn
			select {
			case q = <-r.p[1-s].accepted:
			default:
			}
			if q == nil {
				break
			}
			for _, c := range slots {
				if r.conn[c][1-s] == nil {
					r.conn[c][1-s] = q
					break
				}
			}
		}
	}
}

func (r *replayer) observeSig() string {
	var b strings.Builder
	for s := 0; s < 2; s++ {
		q, _, ok := r.p[s].t.VerifCacheGet(r.keyOf[s])
		fmt.Fprintf(&b, "%s=%v/%p;", peerName[s], ok, q)
	}
	for c := 0; c < nC; c++ {
		for s := 0; s < 2; s++ {
			if q := r.conn[c][s]; q != nil {
				fmt.Fprintf(&b, "%s@%s:%v;", connName[c], peerName[s], isClosed(q))
			}
		}
	}
	return b.String()
}

// freeRun opens all gates and waits until the real transports are quiescent: both dial
// tasks have returned, every close has been observed by both ends, no goroutine is inside
// the negotiation / reap code and every close watcher is parked on a live connection. The
// time bound only ever produces an internal error.
func (r *replayer) freeRun() error {
	r.ctl.Free()
	deadline := time.Now().Add(2 * syncTimeout)
	dialing := initState(r.cfg).Dial
	for {
		if time.Now().After(deadline) {
			return fmt.Errorf("the real transports did not become quiescent after the gates were opened")
		}
		r.collectConns()
		pending := false
		for s := 0; s < 2; s++ {
			if dialing[s].PC != 0 && r.got[s] == nil {
				select {
				case res := <-r.res[s]:
					r.got[s] = &res
				default:
					pending = true
				}
			}
		}
		for c := 0; c < nC; c++ {
			a, b := r.conn[c][0], r.conn[c][1]
			if (a == nil) != (b == nil) || (a != nil && isClosed(a) != isClosed(b)) {
				pending = true
			}
		}
		before := r.observeSig()
		active, woken := overlayActivity(goroutineDump())
		if !pending && active == 0 && woken == 0 && before == r.observeSig() {
			return nil
		}
		time.Sleep(time.Millisecond)
	}
}

// realState builds the observable final state of the real transports in the model's
// vocabulary. Reuse decisions are taken from the validated prefix of the trace (the model
// state before the deviating step) plus what the dial tasks really returned.
func (r *replayer) realState() (mstate, error) {
	st := initState(r.cfg)
	st.Reused = r.devPre.Reused
	st.Cache = [2]int8{-1, -1}
	idx := func(s int, q *quic.Conn) int {
		for c := 0; c < nC; c++ {
			if r.conn[c][s] == q {
				return c
			}
		}
		return -1
	}
	for s := 0; s < 2; s++ {
		if q, _, ok := r.p[s].t.VerifCacheGet(r.keyOf[s]); ok {
			c := idx(s, q)
			if c < 0 {
				return st, fmt.Errorf("%s caches a connection the harness does not know", peerName[s])
			}
			st.Cache[s] = int8(c)
		}
	}
	for c := 0; c < nC; c++ {
		st.Exists[c] = r.conn[c][0] != nil || r.conn[c][1] != nil
		st.Closed[c], st.Closer[c] = causeNone, -1
		for s := 0; s < 2; s++ {
			q := r.conn[c][s]
			if q == nil || !isClosed(q) {
				continue
			}
			code, remote := closeCode(q)
			cause := uint8(causeExt) // anything that is not one of the transport's own close codes
			for k, v := range causeCode {
				if v == code {
					cause = k
				}
			}
			if st.Closed[c] == causeNone || !remote {
				st.Closed[c] = cause
				if !remote {
					st.Closer[c] = int8(s)
				} else if st.Closer[c] < 0 {
					st.Closer[c] = int8(1 - s)
				}
			}
		}
	}
	for s := 0; s < 2; s++ {
		g := r.got[s]
		if g == nil {
			continue
		}
		d := mdial{PC: 3, Conn: -1}
		if g.err != nil {
			d.Res = resErrOther
			if strings.Contains(g.err.Error(), overlay.VerifReuseErrorState) {
				d.Res = resErrRetry
			}
		} else {
			c := idx(s, g.c)
			if c < 0 {
				return st, fmt.Errorf("the dial of %s returned a connection the harness does not know", peerName[s])
			}
			last := -1
			for _, k := range []int{1 + 2*s, 2 + 2*s} {
				if r.conn[k][s] != nil {
					last = k
				}
			}
			d.Conn, d.Res = int8(c), resNew
			if c != last { // not the connection this task dialed last: a cached one was reused
				d.Res = resReuse
				st.Reused[c] |= 1 << s
			}
		}
		st.Dial[s] = d
	}
	return st, nil
}

func stepRole(e mstep) string {
	role := func(c int) string { return "conn" + peerName[dialerOf(c)] }
	switch e.Kind {
	case "check":
		return "check(" + peerName[e.S] + ")"
	case "close406", "ext":
		return e.Kind + "(" + role(e.C) + ")"
	}
	return e.Kind + "(" + role(e.C) + "@" + peerName[e.S] + ")"
}

type devResult struct {
	violated bool
	sig      string
	what     string
	mismatch string // what the real transports did differently
	end      string // real final state
	err      error  // machinery failure while evaluating
}

// evalDeviation replays trace on fresh transports; at the first step where they deviate
// from the model it lets them run to quiescence and judges the real final state.
func evalDeviation(cfg mconfig, tb *tablePair, trace []mstep) devResult {
	if err := waitOverlayIdle(); err != nil {
		return devResult{err: err}
	}
	r, err := newReplayer(cfg, tb)
	if err != nil {
		return devResult{err: err}
	}
	defer r.close()
	merr := r.run(trace)
	if merr == nil {
		return devResult{err: fmt.Errorf("the deviation did not reproduce when the trace was replayed alone")}
	}
	if r.devStep < 0 {
		return devResult{err: fmt.Errorf("failure before the first step: %w", merr)}
	}
	if err := r.freeRun(); err != nil {
		return devResult{err: err, mismatch: merr.Error()}
	}
	st, err := r.realState()
	if err != nil {
		return devResult{err: err, mismatch: merr.Error()}
	}
	at := "end-of-trace"
	if r.devStep < len(trace) {
		at = stepRole(trace[r.devStep])
	}
	res := devResult{mismatch: merr.Error(), end: st.outcome()}
	cls := violationClass(&st, cfg)
	if cls == "" {
		return res
	}
	var rs []string
	cl := st.clauses(cfg)
	for _, k := range []string{"i", "ii", "iii"} {
		if v, ok := cl[k]; ok {
			rs = append(rs, "("+k+") "+v)
		}
	}
	sort.Strings(rs)
	res.violated = true
	res.sig = "c41:" + cls + ":implementation-deviates-from-the-extracted-step-model-at-" + at
	res.what = fmt.Sprintf("%s, trace [%s]: the real transports deviate from the extracted step model at step %d (%s); driven on to quiescence, their REAL final state violates the statement: %s; real end state %s",
		cfg, traceStr(trace), r.devStep, res.mismatch, strings.Join(rs, "; "), res.end)
	return res
}

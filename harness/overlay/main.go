package main

import (
	"verif/engine/hmain"
)

var props = map[string]hmain.Prop{}

func main() { hmain.Main(props) }

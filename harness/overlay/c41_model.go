package main

// C41 part 2: explicit-state model of the connection-reuse negotiation between two peers.
//
// The model owns only the COMPOSITION (who runs which step when, reliable FIFO stream,
// connection-close propagation, the dialer's retry, the accept loop's delayed close, the
// close watcher that calls reapPeer). Every DECISION is looked up in the tables extracted
// from the real functions (c41_table.go), so a change of reuse.go changes the model.
//
// Atomic steps (= critical sections of QUIC.cachedMutex, plus the two close actions):
//
//	check(X)       getCachedConnection: RLock, cache hit -> return it, miss -> dial a new connection
//	snap(c@S)      reuseConnection on S's end of c: RLock, read the cache, send the cache status
//	decide(c@S)    reuseConnection: Lock, decision (enabled once the peer's status has arrived)
//	close406(c)    accept loop: a refused incoming connection is closed one second later
//	reap(c@S)      close watcher started by handlePeer: c is closed -> reapPeer (Lock)
//	ext(c0)        environment: the pre-existing connection dies (idle timeout, network)

import (
	"fmt"
	"sort"
	"strings"
)

const (
	pA = 0
	pB = 1
	nC = 5 // c0 (pre-existing, dialed by A), a1, a2 (dialed by A), b1, b2 (dialed by B)
)

var (
	connName = [nC]string{"c0", "a1", "a2", "b1", "b2"}
	peerName = [2]string{"A", "B"}
	msgName  = []string{"", "C/I", "C/O", "F/I", "F/O"}
)

func dialerOf(c int) int {
	if c <= 2 {
		return pA
	}
	return pB
}

// dirAt is the direction label connection c has at peer s.
func dirAt(c, s int) string {
	if dialerOf(c) == s {
		return "O"
	}
	return "I"
}

const (
	causeNone = 0
	cause508  = 1 // closed by a decision ("previously cached connection was reused")
	cause406  = 2 // closed by the accept loop after a refused negotiation
	causeExt  = 3 // environment
	cause401  = 4 // closed by reapPeer
)

var causeCode = map[uint8]int64{cause508: 508, cause406: 406, causeExt: 77, cause401: 401}

type mhalf struct {
	PC   uint8 // 0 none, 1 at snapshot, 2 snapshot done (waiting for / at decision), 3 finished
	Snap int8  // cache entry seen by the snapshot (-1 none)
	Msg  uint8 // status sent (index into msgName)
}

const (
	resNone     = 0
	resNew      = 1 // stored a fresh connection
	resHit      = 2 // cache hit in getCachedConnection
	resReuse    = 3 // negotiation returned a cached connection
	resErrRetry = 4 // reuse error after the last attempt
	resErrOther = 5
)

type mdial struct {
	PC      uint8 // 0 not dialing, 1 at check, 2 negotiating, 3 finished
	Attempt uint8
	Conn    int8 // connection being negotiated / returned
	Res     uint8
}

type mstate struct {
	Cache  [2]int8
	Exists [nC]bool
	Closed [nC]uint8 // first close cause
	Closer [nC]int8  // peer that closed first
	H      [nC][2]mhalf
	Armed  [nC][2]uint8 // close watcher: 0 none, 1 armed, 2 has run
	P406   [nC]uint8    // 0 no, 1 pending, 2 done
	Dial   [2]mdial
	Reused [nC]uint8 // bit s: peer s decided to reuse this connection (cache hit or negotiation)
	// WakeSnap: what the close watcher of c@s saw in the cache when it became runnable, i.e.
	// before it asks for the lock (0 not recorded, 1 none, 2+c connection c). Only recorded
	// when the extracted reapPeer rows depend on it (code reading the cache outside the lock).
	WakeSnap [nC][2]int8
}

type mstep struct {
	Kind string // check | snap | decide | close406 | reap | ext
	C    int    // connection (-1 for check)
	S    int    // peer
}

func (s mstep) String() string {
	switch s.Kind {
	case "check":
		return "check(" + peerName[s.S] + ")"
	case "close406":
		return "close406(" + connName[s.C] + ")"
	case "ext":
		return "ext(" + connName[s.C] + ")"
	}
	return s.Kind + "(" + connName[s.C] + "@" + peerName[s.S] + ")"
}

type mconfig struct {
	Init    string // none | shared | onlyA | onlyB
	Dialers string // A | B | AB
	Order   string // "" or "A<B": A has the lower address; "B<A"
}

func (c mconfig) String() string {
	s := "init=" + c.Init + ",dial=" + c.Dialers
	if c.Order == "B<A" {
		s += ",order=B<A"
	}
	return s
}

var allInits = []string{"none", "shared", "onlyA", "onlyB"}
var allDialers = []string{"A", "B", "AB"}

func initState(cfg mconfig) mstate {
	var st mstate
	st.Cache = [2]int8{-1, -1}
	for c := 0; c < nC; c++ {
		st.Closer[c] = -1
		for s := 0; s < 2; s++ {
			st.H[c][s].Snap = -1
		}
	}
	for s := 0; s < 2; s++ {
		st.Dial[s].Conn = -1
	}
	if cfg.Init != "none" {
		// c0 was negotiated for real by an earlier dial A->B: both stored it, both watch it
		st.Exists[0] = true
		st.H[0][pA].PC, st.H[0][pB].PC = 3, 3
		st.Armed[0] = [2]uint8{1, 1}
		st.Cache = [2]int8{0, 0}
		switch cfg.Init {
		case "onlyA":
			st.Cache[pB] = -1 // B's entry vanished without the connection being closed
		case "onlyB":
			st.Cache[pA] = -1
		}
	}
	if strings.Contains(cfg.Dialers, "A") {
		st.Dial[pA] = mdial{PC: 1, Attempt: 1, Conn: -1}
	}
	if strings.Contains(cfg.Dialers, "B") {
		st.Dial[pB] = mdial{PC: 1, Attempt: 1, Conn: -1}
	}
	return st
}

const maxAttempts = 2 // retry.Attempts(2) in getCachedConnection; validated by the replays

// enabled lists the enabled steps in a fixed order.
func (st *mstate) enabled() []mstep {
	var out []mstep
	for s := 0; s < 2; s++ {
		if st.Dial[s].PC == 1 {
			out = append(out, mstep{"check", -1, s})
		}
	}
	for c := 0; c < nC; c++ {
		for s := 0; s < 2; s++ {
			h := st.H[c][s]
			if h.PC == 1 {
				out = append(out, mstep{"snap", c, s})
			}
			if h.PC == 2 && st.H[c][1-s].Msg != 0 {
				out = append(out, mstep{"decide", c, s})
			}
		}
	}
	for c := 0; c < nC; c++ {
		if st.P406[c] == 1 {
			out = append(out, mstep{"close406", c, 1 - dialerOf(c)})
		}
	}
	for c := 0; c < nC; c++ {
		for s := 0; s < 2; s++ {
			if st.Armed[c][s] == 1 && st.Closed[c] != causeNone {
				out = append(out, mstep{"reap", c, s})
			}
		}
	}
	if st.Exists[0] && st.Closed[0] == causeNone {
		out = append(out, mstep{"ext", 0, pA})
	}
	return out
}

// quiescent: nothing but the optional environment step is enabled.
func (st *mstate) quiescent() bool {
	for _, e := range st.enabled() {
		if e.Kind != "ext" {
			return false
		}
	}
	return true
}

func (st *mstate) close(c int, cause uint8, by int) {
	if c >= 0 && st.Closed[c] == causeNone {
		st.Closed[c] = cause
		st.Closer[c] = int8(by)
	}
}

func msgIndex(m string) (uint8, error) {
	for i, n := range msgName {
		if i > 0 && n == m {
			return uint8(i), nil
		}
	}
	return 0, fmt.Errorf("status %q is not one a real peer can send", m)
}

func (st *mstate) cacheKind(s int) string {
	if st.Cache[s] < 0 {
		return "N"
	}
	return dirAt(int(st.Cache[s]), s)
}

// apply executes one step; row is the table row used (decide/reap steps).
func (st mstate) apply(e mstep, tp *tablePair, order string) (mstate, string, error) {
	post, row, err := st.apply0(e, tp, order)
	if err != nil || !tp.ReapPre {
		return post, row, err
	}
	// A watcher that becomes runnable by this step reads the cache right away (in the replay
	// the harness waits for it to arrive at the lock before the next step), i.e. it sees the
	// cache as this step leaves it.
	for c := 0; c < nC; c++ {
		for s := 0; s < 2; s++ {
			was := st.Armed[c][s] == 1 && st.Closed[c] != causeNone
			is := post.Armed[c][s] == 1 && post.Closed[c] != causeNone
			if !was && is {
				post.WakeSnap[c][s] = post.Cache[s] + 2
			}
		}
	}
	return post, row, nil
}

func (st mstate) apply0(e mstep, tp *tablePair, order string) (mstate, string, error) {
	s := e.S
	tb := tp.of(s, order)
	switch e.Kind {
	case "check":
		d := &st.Dial[s]
		if st.Cache[s] >= 0 {
			d.PC, d.Conn, d.Res = 3, st.Cache[s], resHit
			st.Reused[st.Cache[s]] |= 1 << s
			return st, "hit", nil
		}
		c := 1 + 2*s + int(d.Attempt) - 1 // a1,a2 / b1,b2
		if st.Exists[c] {
			return st, "", fmt.Errorf("connection %s dialed twice", connName[c])
		}
		st.Exists[c] = true
		st.H[c][0].PC, st.H[c][1].PC = 1, 1
		d.PC, d.Conn = 2, int8(c)
		return st, "miss", nil
	case "snap":
		h := &st.H[e.C][s]
		k := st.cacheKind(s)
		sent, ok := tb.Sent[dirAt(e.C, s)+k]
		if !ok {
			return st, "", fmt.Errorf("no extracted status for %s%s", dirAt(e.C, s), k)
		}
		mi, err := msgIndex(sent)
		if err != nil {
			return st, "", err
		}
		h.PC, h.Snap, h.Msg = 2, st.Cache[s], mi
		return st, dirAt(e.C, s) + k + "->" + sent, nil
	case "decide":
		h := &st.H[e.C][s]
		snapC, curC := int(h.Snap), int(st.Cache[s])
		snapK := "N"
		if snapC >= 0 {
			snapK = dirAt(snapC, s)
		}
		curK := "N"
		switch {
		case curC < 0:
		case snapC >= 0 && curC == snapC:
			curK = "S"
		default:
			curK = dirAt(curC, s)
		}
		key := rowKey{dirAt(e.C, s), snapK, curK, msgName[st.H[e.C][1-s].Msg]}
		row, ok := tb.Decide[key]
		if !ok {
			return st, "", fmt.Errorf("no extracted row for %s", key)
		}
		pick := func(n string) int {
			switch n {
			case "fresh":
				return e.C
			case "snap":
				return snapC
			case "cur":
				return curC
			}
			return -1
		}
		st.Cache[s] = int8(pick(row.CacheAfter))
		if row.CloseFresh {
			st.close(e.C, cause508, s)
		}
		if row.CloseSnap {
			st.close(snapC, cause508, s)
		}
		if row.CloseCur {
			st.close(curC, cause508, s)
		}
		ret := pick(row.Ret)
		if row.Err == "" {
			if ret < 0 {
				return st, "", fmt.Errorf("row %s returns no connection and no error", key)
			}
			if row.Reused {
				st.Reused[ret] |= 1 << s
			} else if st.Armed[ret][s] == 0 {
				st.Armed[ret][s] = 1 // handlePeer starts the close watcher
			}
		}
		h.PC = 3
		if dialerOf(e.C) == s {
			d := &st.Dial[s]
			switch {
			case row.Err == "" && row.Reused:
				d.PC, d.Conn, d.Res = 3, int8(ret), resReuse
			case row.Err == "":
				d.PC, d.Conn, d.Res = 3, int8(ret), resNew
			case row.Err == "retry" && d.Attempt < maxAttempts:
				d.PC, d.Conn = 1, -1
				d.Attempt++
			case row.Err == "retry":
				d.PC, d.Conn, d.Res = 3, -1, resErrRetry
			default:
				d.PC, d.Conn, d.Res = 3, -1, resErrOther
			}
		} else if row.Err != "" {
			st.P406[e.C] = 1
		}
		return st, key.String(), nil
	case "close406":
		st.close(e.C, cause406, s)
		st.P406[e.C] = 2
		return st, "", nil
	case "reap":
		kindOf := func(entry int) string {
			switch {
			case entry < 0:
				return "N"
			case entry == e.C:
				return "S"
			}
			return "X"
		}
		entry := int(st.Cache[s])
		lockK := kindOf(entry)
		preEntry, preK := entry, lockK
		if tp.ReapPre {
			if st.WakeSnap[e.C][s] == 0 {
				return st, "", fmt.Errorf("no wake-up snapshot recorded for the watcher of %s@%s", connName[e.C], peerName[s])
			}
			preEntry = int(st.WakeSnap[e.C][s]) - 2
			preK = kindOf(preEntry)
			if preK == "X" && lockK == "X" && preEntry != entry {
				lockK = "Y"
			}
		}
		row, ok := tb.Reap[preK+">"+lockK]
		if !ok {
			return st, "", fmt.Errorf("no extracted reap row %s>%s", preK, lockK)
		}
		if row.CacheAfter == "none" {
			st.Cache[s] = -1
		}
		if row.CloseEntry {
			st.close(entry, cause401, s)
		}
		if row.ClosePre && preEntry != entry {
			st.close(preEntry, cause401, s)
		}
		if row.CloseArg {
			st.close(e.C, cause401, s)
		}
		st.Armed[e.C][s] = 2
		st.WakeSnap[e.C][s] = 0
		return st, "reap:" + preK + ">" + lockK, nil
	case "ext":
		st.close(e.C, causeExt, s)
		return st, "", nil
	}
	return st, "", fmt.Errorf("unknown step %v", e)
}

// ---- property clauses, evaluated in quiescent states ----

func closedByNegotiation(cause uint8) bool {
	return cause == cause508 || cause == cause406 || cause == cause401
}

// clauses returns the violated clauses ("i", "ii", "iii") with a one-line reason each.
func (st *mstate) clauses(cfg mconfig) map[string]string {
	out := map[string]string{}
	a, b := int(st.Cache[pA]), int(st.Cache[pB])
	if a >= 0 && b >= 0 && a != b && st.Closed[a] == causeNone && st.Closed[b] == causeNone {
		out["i"] = fmt.Sprintf("A caches %s and B caches %s, both live", connName[a], connName[b])
	}
	for c := 0; c < nC; c++ {
		if st.Reused[c] != 0 && closedByNegotiation(st.Closed[c]) {
			who := ""
			for s := 0; s < 2; s++ {
				if st.Reused[c]&(1<<s) != 0 {
					who += peerName[s]
				}
			}
			out["ii"] = fmt.Sprintf("%s was reused by %s and closed with %d by %s", connName[c], who, causeCode[st.Closed[c]], peerName[st.Closer[c]])
			break
		}
	}
	for s := 0; s < 2; s++ {
		c := int(st.Cache[s])
		if c >= 1 && int(st.Cache[1-s]) != c { // c >= 1: a connection made during the run
			out["iii"] = fmt.Sprintf("%s caches new connection %s, %s does not", peerName[s], connName[c], peerName[1-s])
			break
		}
	}
	return out
}

// ---- search ----

type medge struct {
	Step mstep
	To   int
	Row  string
}

type mgraph struct {
	cfg    mconfig
	states []mstate
	index  map[mstate]int
	succ   [][]medge
	parent []int
	pstep  []mstep
	depth  []int
	quiet  []bool
	trans  int
}

func explore(cfg mconfig, tb *tablePair) (*mgraph, error) {
	g := &mgraph{cfg: cfg, index: map[mstate]int{}}
	add := func(st mstate, parent int, step mstep, depth int) int {
		if i, ok := g.index[st]; ok {
			return i
		}
		i := len(g.states)
		g.index[st] = i
		g.states = append(g.states, st)
		g.succ = append(g.succ, nil)
		g.parent = append(g.parent, parent)
		g.pstep = append(g.pstep, step)
		g.depth = append(g.depth, depth)
		g.quiet = append(g.quiet, false)
		return i
	}
	add(initState(cfg), -1, mstep{}, 0)
	for i := 0; i < len(g.states); i++ { // BFS: parent pointers give shortest traces
		st := g.states[i]
		g.quiet[i] = st.quiescent()
		for _, e := range st.enabled() {
			nx, row, err := st.apply(e, tb, cfg.Order)
			if err != nil {
				return nil, fmt.Errorf("%s after %s: step %s: %w", cfg, g.traceString(i), e, err)
			}
			j := add(nx, i, e, g.depth[i]+1)
			g.succ[i] = append(g.succ[i], medge{e, j, row})
			g.trans++
		}
		if len(g.states) > 5_000_000 {
			return nil, fmt.Errorf("%s: state space larger than expected", cfg)
		}
	}
	return g, nil
}

func (g *mgraph) trace(i int) []mstep {
	var rev []mstep
	for i > 0 {
		rev = append(rev, g.pstep[i])
		i = g.parent[i]
	}
	out := make([]mstep, len(rev))
	for k := range rev {
		out[k] = rev[len(rev)-1-k]
	}
	return out
}

func traceStr(t []mstep) string {
	p := make([]string, len(t))
	for i, e := range t {
		p[i] = e.String()
	}
	return strings.Join(p, " ")
}

func (g *mgraph) traceString(i int) string { return traceStr(g.trace(i)) }

// completeTraces counts the paths from the initial state to quiescent states (saturating).
func (g *mgraph) completeTraces() uint64 {
	memo := make([]uint64, len(g.states))
	done := make([]bool, len(g.states))
	const sat = uint64(1) << 62
	var rec func(i int) uint64
	rec = func(i int) uint64 {
		if done[i] {
			return memo[i]
		}
		var n uint64
		if g.quiet[i] {
			n = 1
		}
		for _, e := range g.succ[i] {
			n += rec(e.To)
			if n > sat {
				n = sat
			}
		}
		memo[i], done[i] = n, true
		return n
	}
	return rec(0)
}

// outcome is the observable summary of a quiescent state (used to group traces).
func (st *mstate) outcome() string {
	var p []string
	for s := 0; s < 2; s++ {
		c := "-"
		if st.Cache[s] >= 0 {
			c = connName[st.Cache[s]]
		}
		p = append(p, peerName[s]+"="+c)
	}
	for s := 0; s < 2; s++ {
		d := st.Dial[s]
		if d.PC == 0 {
			continue
		}
		r := []string{"?", "new", "hit", "reuse", "err-retry", "err"}[d.Res]
		if d.Conn >= 0 {
			r += ":" + connName[d.Conn]
			if st.Closed[d.Conn] != causeNone {
				r += "(closed" + fmt.Sprint(causeCode[st.Closed[d.Conn]]) + ")"
			}
		}
		p = append(p, "dial"+peerName[s]+"="+r)
	}
	var cl []string
	for c := 0; c < nC; c++ {
		if st.Exists[c] {
			if st.Closed[c] != causeNone {
				cl = append(cl, fmt.Sprintf("%s:%d", connName[c], causeCode[st.Closed[c]]))
			} else {
				cl = append(cl, connName[c]+":live")
			}
		}
	}
	sort.Strings(cl)
	p = append(p, "conns="+strings.Join(cl, ","))
	return strings.Join(p, " ")
}

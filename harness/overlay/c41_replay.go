package main

// C41 part 3: conformance. A model trace is replayed on two REAL overlay transports over
// loopback QUIC: the real getCachedConnection / AcceptWithListener / reuseConnection /
// reapPeer run in their own goroutines and are parked at the gates (gate package); the
// harness releases exactly the gate of the next model step, waits for the explicit
// "left the critical section" / "arrived at the next gate" / "connection closed"
// notifications, and compares caches, close events and dial results with the model after
// every step. Any disagreement is a model/implementation mismatch (internal error), never
// a property verdict.

import (
	"context"
	"fmt"
	"sort"
	"strings"

	"github.com/quic-go/quic-go"

	"go.miragespace.co/specter/overlay"
	"go.miragespace.co/specter/spec/protocol"

	"verif/harness/overlay/gate"
)

type dialResult struct {
	c   *quic.Conn
	err error
}

type replayer struct {
	cfg    mconfig
	tb     *tablePair
	ctx    context.Context
	cancel context.CancelFunc
	p      [2]*rpeer
	ctl    *gate.Controller
	keyOf  [2]string          // cache key peer s uses for the other peer
	conn   [nC][2]*quic.Conn  // real object of model connection c at peer s
	sess   [nC][2]int64       // goroutine of half-session c@s
	task   [2]int64           // goroutine of the dial task of s
	res    [2]chan dialResult //
	got    [2]*dialResult     // dial results already consumed
	// first step at which the real transports did not do what the model predicted (-1: none),
	// and the (validated) model state before that step
	devStep int
	devPre  mstate
	parked  map[string]*gate.Event // model step -> parked goroutine
	pool    []*gate.Event          // arrived / done events not yet consumed
	log     []string
}

func (r *replayer) peerOfOwner(o any) int {
	for s := 0; s < 2; s++ {
		if r.p[s].t.VerifMutex() == o {
			return s
		}
	}
	return -1
}

// await returns the first event satisfying match (from the pool, then from the controller).
func (r *replayer) await(what string, match func(*gate.Event) bool) (*gate.Event, error) {
	for i, ev := range r.pool {
		if match(ev) {
			r.pool = append(r.pool[:i], r.pool[i+1:]...)
			return ev, nil
		}
	}
	for {
		ev, err := waitCh(r.ctl.Events, what)
		if err != nil {
			return nil, fmt.Errorf("%w (unconsumed events: %s)", err, r.poolString())
		}
		if match(ev) {
			return ev, nil
		}
		r.pool = append(r.pool, ev)
	}
}

func (r *replayer) poolString() string {
	var p []string
	for _, ev := range r.pool {
		p = append(p, fmt.Sprintf("%s/%s/%s@%s#%d", ev.Func, ev.Mode, ev.Phase, r.ownerName(ev), ev.Goid))
	}
	return "[" + strings.Join(p, " ") + "]"
}

func (r *replayer) ownerName(ev *gate.Event) string {
	if s := r.peerOfOwner(ev.Owner); s >= 0 {
		return peerName[s]
	}
	return "?"
}

func (r *replayer) arrive(what string, s int, fn, mode string, goid int64) (*gate.Event, error) {
	return r.await(what, func(ev *gate.Event) bool {
		if ev.Phase != "arrive" || ev.Func != fn || ev.Mode != mode {
			return false
		}
		if fn != "sleep" && r.peerOfOwner(ev.Owner) != s {
			return false
		}
		return goid == 0 || ev.Goid == goid
	})
}

func (r *replayer) done(what string, goid int64) error {
	_, err := r.await(what, func(ev *gate.Event) bool { return ev.Phase == "done" && ev.Goid == goid })
	return err
}

func (r *replayer) known(goid int64) bool {
	for s := 0; s < 2; s++ {
		if r.task[s] == goid {
			return true
		}
		for c := 0; c < nC; c++ {
			if r.sess[c][s] == goid {
				return true
			}
		}
	}
	return false
}

func newReplayer(cfg mconfig, tb *tablePair) (*replayer, error) {
	r := &replayer{cfg: cfg, tb: tb, parked: map[string]*gate.Event{}, devStep: -1}
	r.ctx, r.cancel = context.WithCancel(context.Background())
	ea, eb, err := endpointPair(peerName[pA], peerName[pB], cfg.Order != "B<A")
	if err != nil {
		r.cancel()
		return nil, err
	}
	r.p[pA], r.p[pB] = newRPeerOn(ea), newRPeerOn(eb)
	for s := 0; s < 2; s++ {
		r.res[s] = make(chan dialResult, 1)
	}
	r.ctl = gate.NewController()
	for s := 0; s < 2; s++ {
		r.keyOf[s] = r.p[s].t.VerifKey(&protocol.Node{Address: r.p[1-s].addr})
		r.ctl.Own(r.p[s].t.VerifMutex())
		p := r.p[s]
		go p.t.AcceptWithListener(r.ctx, p.lis) // the real accept loop
	}
	return r, nil
}

func (r *replayer) close() {
	if r.ctl != nil {
		r.ctl.Drain()
	}
	r.cancel()
	for c := 0; c < nC; c++ {
		for s := 0; s < 2; s++ {
			if r.conn[c][s] != nil {
				r.conn[c][s].CloseWithError(0, "harness")
			}
		}
	}
	for s := 0; s < 2; s++ {
		if r.p[s] != nil {
			r.p[s].t.Stop()
			r.p[s].close()
		}
	}
}

// startDial starts the real dial path of peer s in its own goroutine and parks it at the
// cache check.
func (r *replayer) startDial(s int) error {
	gid := make(chan int64, 1)
	peer := &protocol.Node{Address: r.p[1-s].addr}
	go func() {
		gid <- gate.Goid()
		c, err := r.p[s].t.VerifGetCachedConnection(r.ctx, peer)
		r.res[s] <- dialResult{c, err}
	}()
	r.task[s] = <-gid
	ev, err := r.arrive("cache check of "+peerName[s], s, "check", "R", r.task[s])
	if err != nil {
		return err
	}
	r.parked[mstep{"check", -1, s}.String()] = ev
	return nil
}

// afterDial collects both ends of the connection the dial task of s has just dialed and
// parks both half-sessions at their snapshot gates.
func (r *replayer) afterDial(c, s int) error {
	var err error
	if r.conn[c][s], err = waitCh(r.p[s].dialed, "dial of "+connName[c]); err != nil {
		return err
	}
	if r.conn[c][1-s], err = waitCh(r.p[1-s].accepted, "accept of "+connName[c]); err != nil {
		return err
	}
	ev, err := r.arrive("snapshot gate of "+connName[c]+"@"+peerName[s], s, "reuse", "R", r.task[s])
	if err != nil {
		return err
	}
	r.sess[c][s] = r.task[s]
	r.parked[mstep{"snap", c, s}.String()] = ev
	ev, err = r.await("snapshot gate of "+connName[c]+"@"+peerName[1-s], func(ev *gate.Event) bool {
		return ev.Phase == "arrive" && ev.Func == "reuse" && ev.Mode == "R" && r.peerOfOwner(ev.Owner) == 1-s && !r.known(ev.Goid)
	})
	if err != nil {
		return err
	}
	r.sess[c][1-s] = ev.Goid
	r.parked[mstep{"snap", c, 1 - s}.String()] = ev
	return nil
}

func (r *replayer) release(e mstep) (*gate.Event, error) {
	ev, ok := r.parked[e.String()]
	if !ok {
		return nil, fmt.Errorf("step %s: no real goroutine is parked at this gate", e)
	}
	delete(r.parked, e.String())
	ev.Release()
	return ev, nil
}

// setupShared negotiates c0 for real (dial A->B), forcing snapshot-before-decision order.
func (r *replayer) setupShared() error {
	if err := r.startDial(pA); err != nil {
		return err
	}
	ev, err := r.release(mstep{"check", -1, pA})
	if err != nil {
		return err
	}
	if err = r.done("setup check", ev.Goid); err != nil {
		return err
	}
	if err = r.afterDial(0, pA); err != nil {
		return err
	}
	for s := 0; s < 2; s++ {
		if ev, err = r.release(mstep{"snap", 0, s}); err != nil {
			return err
		}
		if err = r.done("setup snapshot", ev.Goid); err != nil {
			return err
		}
	}
	for s := 0; s < 2; s++ {
		if ev, err = r.arrive("setup decision gate", s, "reuse", "W", r.sess[0][s]); err != nil {
			return err
		}
		ev.Release()
		if err = r.done("setup decision", ev.Goid); err != nil {
			return err
		}
	}
	res, err := waitCh(r.res[pA], "setup dial result")
	if err != nil {
		return err
	}
	if res.err != nil || res.c != r.conn[0][pA] {
		return fmt.Errorf("setup dial did not return the fresh connection: %v", res.err)
	}
	for s := 0; s < 2; s++ {
		if got, _, ok := r.p[s].t.VerifCacheGet(r.keyOf[s]); !ok || got != r.conn[0][s] {
			return fmt.Errorf("setup: %s does not cache c0", peerName[s])
		}
	}
	r.task[pA] = 0
	r.sess[0] = [2]int64{-1, -1} // finished goroutines; ids never reused
	return nil
}

func (r *replayer) modelConn(s int, q *quic.Conn) string {
	for c := 0; c < nC; c++ {
		if r.conn[c][s] == q {
			return connName[c]
		}
	}
	return "unknown"
}

// compare checks the observable real state against the model state.
func (r *replayer) compare(st *mstate) error {
	for s := 0; s < 2; s++ {
		want := "-"
		if st.Cache[s] >= 0 {
			want = connName[st.Cache[s]]
		}
		got := "-"
		if q, incoming, ok := r.p[s].t.VerifCacheGet(r.keyOf[s]); ok {
			got = r.modelConn(s, q)
			if c := int(st.Cache[s]); c >= 0 && (dirAt(c, s) == "I") != incoming {
				return fmt.Errorf("cache of %s: direction label differs from the model", peerName[s])
			}
		}
		if got != want {
			return fmt.Errorf("cache of %s: real %s, model %s", peerName[s], got, want)
		}
	}
	for c := 0; c < nC; c++ {
		for s := 0; s < 2; s++ {
			q := r.conn[c][s]
			if q == nil {
				if st.Exists[c] {
					return fmt.Errorf("%s exists in the model but was never dialed for real", connName[c])
				}
				continue
			}
			if !st.Exists[c] {
				return fmt.Errorf("%s was dialed for real but does not exist in the model", connName[c])
			}
			if isClosed(q) != (st.Closed[c] != causeNone) {
				return fmt.Errorf("%s at %s: real closed=%v, model closed=%v", connName[c], peerName[s], isClosed(q), st.Closed[c] != causeNone)
			}
			if st.Closed[c] != causeNone {
				code, remote := closeCode(q)
				if code != causeCode[st.Closed[c]] || remote != (int(st.Closer[c]) != s) {
					return fmt.Errorf("%s at %s: real close code %d remote=%v, model %d by %s", connName[c], peerName[s], code, remote, causeCode[st.Closed[c]], peerName[st.Closer[c]])
				}
			}
		}
	}
	return nil
}

// settle waits for every notification the transition pre->post must cause and parks the
// goroutines that arrive at new gates.
func (r *replayer) settle(pre, post *mstate, e mstep) error {
	// connections closed by this step: explicit close notification on both ends
	for c := 0; c < nC; c++ {
		if pre.Closed[c] == causeNone && post.Closed[c] != causeNone {
			for s := 0; s < 2; s++ {
				if r.conn[c][s] == nil {
					return fmt.Errorf("model closes %s which has no real counterpart", connName[c])
				}
				if err := waitClosed(r.conn[c][s], connName[c]+" at "+peerName[s]); err != nil {
					return err
				}
			}
		}
	}
	// dial tasks
	for s := 0; s < 2; s++ {
		pd, nd := pre.Dial[s], post.Dial[s]
		switch {
		case pd.PC != 3 && nd.PC == 3:
			res, err := waitCh(r.res[s], "dial result of "+peerName[s])
			if err != nil {
				return err
			}
			r.got[s] = &res
			switch nd.Res {
			case resNew, resHit, resReuse:
				if res.err != nil {
					return fmt.Errorf("dial of %s: real error %q, model returns %s", peerName[s], res.err, connName[nd.Conn])
				}
				if got := r.modelConn(s, res.c); got != connName[nd.Conn] {
					return fmt.Errorf("dial of %s: real returns %s, model %s", peerName[s], got, connName[nd.Conn])
				}
			default:
				if res.err == nil {
					return fmt.Errorf("dial of %s: real returns %s, model an error", peerName[s], r.modelConn(s, res.c))
				}
				retry := strings.Contains(res.err.Error(), overlay.VerifReuseErrorState)
				if retry != (nd.Res == resErrRetry) {
					return fmt.Errorf("dial of %s: real error %q, model error class %d", peerName[s], res.err, nd.Res)
				}
			}
		case pd.PC == 2 && nd.PC == 1: // retry: back at the cache check
			ev, err := r.arrive("retry cache check of "+peerName[s], s, "check", "R", r.task[s])
			if err != nil {
				return err
			}
			r.parked[mstep{"check", -1, s}.String()] = ev
		case pd.PC == 1 && nd.PC == 2: // dialed
			if err := r.afterDial(int(nd.Conn), s); err != nil {
				return err
			}
		}
	}
	// half-sessions whose both snapshots are now done arrive at their decision gates
	for c := 0; c < nC; c++ {
		bothPre := pre.H[c][0].Msg != 0 && pre.H[c][1].Msg != 0
		bothPost := post.H[c][0].Msg != 0 && post.H[c][1].Msg != 0
		if !bothPre && bothPost {
			for s := 0; s < 2; s++ {
				ev, err := r.arrive("decision gate of "+connName[c]+"@"+peerName[s], s, "reuse", "W", r.sess[c][s])
				if err != nil {
					return err
				}
				r.parked[mstep{"decide", c, s}.String()] = ev
			}
		}
	}
	// refused incoming connections: the accept loop reaches its one-second wait
	for c := 0; c < nC; c++ {
		if pre.P406[c] == 0 && post.P406[c] == 1 {
			s := 1 - dialerOf(c)
			ev, err := r.arrive("delayed close of "+connName[c], s, "sleep", "S", r.sess[c][s])
			if err != nil {
				return err
			}
			r.parked[mstep{"close406", c, s}.String()] = ev
		}
	}
	// close watchers that become runnable
	seenDir := map[string]string{}
	for c := 0; c < nC; c++ {
		for s := 0; s < 2; s++ {
			if !(pre.Armed[c][s] == 1 && pre.Closed[c] != causeNone) && post.Armed[c][s] == 1 && post.Closed[c] != causeNone {
				k := peerName[s] + dirAt(c, s)
				if o, dup := seenDir[k]; dup {
					return fmt.Errorf("watchers of %s and %s at %s become runnable in one step and have the same direction: the harness cannot tell them apart", o, connName[c], peerName[s])
				}
				seenDir[k] = connName[c]
			}
		}
	}
	for c := 0; c < nC; c++ {
		for s := 0; s < 2; s++ {
			was := pre.Armed[c][s] == 1 && pre.Closed[c] != causeNone
			is := post.Armed[c][s] == 1 && post.Closed[c] != causeNone
			if !was && is {
				ev, err := r.await("close watcher of "+connName[c]+"@"+peerName[s], func(ev *gate.Event) bool {
					if ev.Phase != "arrive" || ev.Func != "reap" || ev.Mode != "W" || r.peerOfOwner(ev.Owner) != s || r.known(ev.Goid) {
						return false
					}
					// the watcher's own log line tells which of this peer's connections it watches
					return r.p[s].watch.get(ev.Goid) == map[string]string{"I": "Incoming", "O": "Outgoing"}[dirAt(c, s)]
				})
				if err != nil {
					return err
				}
				r.parked[mstep{"reap", c, s}.String()] = ev
			}
		}
	}
	return nil
}

// run replays one model trace; the returned error describes a mismatch or a machinery
// failure.
func (r *replayer) run(trace []mstep) error {
	st := initState(r.cfg)
	if r.cfg.Init != "none" {
		if err := r.setupShared(); err != nil {
			return fmt.Errorf("setup: %w", err)
		}
		switch r.cfg.Init {
		case "onlyA":
			r.p[pB].t.VerifCacheDel(r.keyOf[pB])
		case "onlyB":
			r.p[pA].t.VerifCacheDel(r.keyOf[pA])
		}
	}
	for s := 0; s < 2; s++ {
		if st.Dial[s].PC == 1 {
			if err := r.startDial(s); err != nil {
				return err
			}
		}
	}
	if err := r.compare(&st); err != nil {
		return fmt.Errorf("initial state: %w", err)
	}
	for i, e := range trace {
		if err := r.step(i, e, &st); err != nil {
			r.devStep, r.devPre = i, st
			return err
		}
	}
	if err := r.atEnd(&st); err != nil {
		r.devStep, r.devPre = len(trace), st
		return err
	}
	return nil
}

// step executes model step e on the real transports and advances st when they agree.
func (r *replayer) step(i int, e mstep, st *mstate) error {
	ok := false
	for _, en := range st.enabled() {
		if en == e {
			ok = true
		}
	}
	if !ok {
		return fmt.Errorf("step %d %s is not enabled in the model", i, e)
	}
	post, _, err := st.apply(e, r.tb, r.cfg.Order)
	if err != nil {
		return err
	}
	if e.Kind == "ext" {
		r.conn[e.C][e.S].CloseWithError(quic.ApplicationErrorCode(causeCode[causeExt]), "environment")
	} else {
		ev, err := r.release(e)
		if err != nil {
			return fmt.Errorf("step %d: %w", i, err)
		}
		if e.Kind != "close406" {
			if err := r.done(fmt.Sprintf("end of step %d %s", i, e), ev.Goid); err != nil {
				return err
			}
		}
	}
	if err := r.settle(st, &post, e); err != nil {
		return fmt.Errorf("step %d %s: %w", i, e, err)
	}
	if err := r.compare(&post); err != nil {
		return fmt.Errorf("after step %d %s: %w", i, e, err)
	}
	*st = post
	return nil
}

func (r *replayer) atEnd(st *mstate) error {
	if !st.quiescent() {
		return fmt.Errorf("trace does not end in a quiescent model state")
	}
	if len(r.parked) != 0 || len(r.pool) != 0 {
		var p []string
		for k := range r.parked {
			p = append(p, k)
		}
		sort.Strings(p)
		return fmt.Errorf("quiescent in the model but real goroutines are still parked at %v, unconsumed events %s", p, r.poolString())
	}
	// nothing else may be on its way: every goroutine the model knows of has been accounted for
	select {
	case ev := <-r.ctl.Events:
		return fmt.Errorf("unexpected real event after quiescence: %s/%s/%s at %s", ev.Func, ev.Mode, ev.Phase, r.ownerName(ev))
	default:
	}
	return nil
}

// replayTrace replays one trace on fresh transports.
func replayTrace(cfg mconfig, tb *tablePair, trace []mstep) error {
	r, err := newReplayer(cfg, tb)
	if err != nil {
		return err
	}
	defer r.close()
	return r.run(trace)
}

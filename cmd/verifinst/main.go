// verifinst reads an instrumentation config and the *current* files of /repo and writes
// a `go build -overlay` file. It never edits /repo.
//
//	verifinst -config harness/<group>/inst.json -out .work/<x>
//
// Rewrites (textual, at go/ast positions, so line numbers are preserved):
//   - import path replacement (e.g. "sync" -> verif/engine/vsync, keeping the local name)
//   - vsched.Point("<file>:<line>") before every statement of the designated functions
//     (including function literals inside them)
//   - `go f(x)` -> vsched.Go(func() { f(x) }) in designated files
//   - runtime.Gosched() -> vsched.SleepYield("gosched")
//   - extra files added to repo package directories; virtual files
package main

import (
	"encoding/json"
	"flag"
	"fmt"
	"go/ast"
	"go/parser"
	"go/token"
	"os"
	"path/filepath"
	"sort"
	"strings"
)

type FileCfg struct {
	Path    string            `json:"path"`    // relative to repo root
	Imports map[string]string `json:"imports"` // import path -> replacement path
	Points  []string          `json:"points"`  // function names ("Recv.Name" or "Name"), "*" = all
	Go      bool              `json:"go"`      // rewrite go statements
	Gosched bool              `json:"gosched"` // rewrite runtime.Gosched()
	ChanBuf bool              `json:"chanbuf"` // rewrite make(chan T) into make(chan T, 1) (request/response handshakes stay equivalent; needed because unbuffered rendezvous is not supported)
	Chan    bool              `json:"chan"`    // rewrite channel receive/send and blocking select into scheduler-aware polling (buffered / close-only channels; unbuffered rendezvous is NOT supported)
	Skip    []string          `json:"skip"`    // functions excluded from "*"
	Atomic  []string          `json:"atomic"`  // functions executed as one scheduler step (points inside are suppressed); "Name@1" = only when vsched.AtomicLevel >= 1
	Filter  string            `json:"filter"`  // "shared" (default): only statements whose own expressions contain a call, selector, dereference or channel operation; "all": every statement
}

type AddCfg struct {
	Dir string `json:"dir"` // repo package dir (relative)
	Src string `json:"src"` // dir under /verif with .go files to add
}

type Config struct {
	Repo    string            `json:"repo"`
	Files   []FileCfg         `json:"files"`
	Add     []AddCfg          `json:"add"`
	Virtual map[string]string `json:"virtual"` // repo-relative path -> file under /verif
}

type edit struct {
	off, end int // replace [off,end) ; insertion when off==end
	text     string
	order    int
}

func fatal(f string, a ...any) {
	fmt.Fprintf(os.Stderr, "verifinst: "+f+"\n", a...)
	os.Exit(2)
}

func main() {
	cfgPath := flag.String("config", "", "")
	out := flag.String("out", "", "")
	repo := flag.String("repo", "", "repository root (default /repo)")
	flag.Parse()
	b, err := os.ReadFile(*cfgPath)
	if err != nil {
		fatal("%v", err)
	}
	var cfg Config
	if err := json.Unmarshal(b, &cfg); err != nil {
		fatal("config: %v", err)
	}
	if *repo != "" {
		cfg.Repo = *repo
	}
	if cfg.Repo == "" {
		cfg.Repo = "/repo"
	}
	verif, _ := filepath.Abs(".")
	gen := filepath.Join(*out, "gen")
	os.RemoveAll(gen)
	os.MkdirAll(gen, 0o755)
	replace := map[string]string{}
	for i, fc := range cfg.Files {
		src := filepath.Join(cfg.Repo, fc.Path)
		dst := filepath.Join(gen, fmt.Sprintf("f%d_%s", i, filepath.Base(fc.Path)))
		if err := instrument(src, dst, fc); err != nil {
			fatal("%s: %v", fc.Path, err)
		}
		replace[src] = dst
	}
	for _, a := range cfg.Add {
		ents, err := os.ReadDir(filepath.Join(verif, a.Src))
		if err != nil {
			fatal("add %s: %v", a.Src, err)
		}
		for _, e := range ents {
			if e.IsDir() || !(strings.HasSuffix(e.Name(), ".go") || strings.HasSuffix(e.Name(), ".go.txt")) {
				continue
			}
			name := strings.TrimSuffix(e.Name(), ".txt")
			replace[filepath.Join(cfg.Repo, a.Dir, "zz_verif_"+name)] = filepath.Join(verif, a.Src, e.Name())
		}
	}
	for rel, src := range cfg.Virtual {
		replace[filepath.Join(cfg.Repo, rel)] = filepath.Join(verif, src)
	}
	ob, _ := json.MarshalIndent(map[string]any{"Replace": replace}, "", " ")
	if err := os.WriteFile(filepath.Join(*out, "overlay.json"), ob, 0o644); err != nil {
		fatal("%v", err)
	}
}

// touchesShared reports whether the statement's own expressions (for compound statements:
// the header only; nested statements get their own points) can observe or change state
// visible to another thread: a call, a selector, a dereference, an index of a non-local or
// a channel operation. Pure-local arithmetic between two such statements cannot be
// distinguished by any other thread, so dropping the point there loses no behaviour.
func touchesShared(st ast.Stmt) bool {
	var exprs []ast.Node
	switch x := st.(type) {
	case *ast.IfStmt:
		if x.Init != nil {
			exprs = append(exprs, x.Init)
		}
		exprs = append(exprs, x.Cond)
	case *ast.ForStmt:
		for _, n := range []ast.Node{x.Init, x.Cond, x.Post} {
			if n != nil && !isNilNode(n) {
				exprs = append(exprs, n)
			}
		}
	case *ast.RangeStmt:
		exprs = append(exprs, x.X)
	case *ast.SwitchStmt:
		if x.Init != nil {
			exprs = append(exprs, x.Init)
		}
		if x.Tag != nil {
			exprs = append(exprs, x.Tag)
		}
		// case expressions are evaluated as part of the switch
		for _, c := range x.Body.List {
			for _, e := range c.(*ast.CaseClause).List {
				exprs = append(exprs, e)
			}
		}
	case *ast.TypeSwitchStmt:
		if x.Init != nil {
			exprs = append(exprs, x.Init)
		}
		exprs = append(exprs, x.Assign)
	case *ast.SelectStmt:
		return true
	case *ast.BlockStmt:
		return false
	case *ast.LabeledStmt:
		return touchesShared(x.Stmt)
	case *ast.GoStmt, *ast.DeferStmt, *ast.SendStmt:
		return true
	case *ast.BranchStmt, *ast.EmptyStmt:
		return false
	case *ast.DeclStmt:
		exprs = append(exprs, x)
	case *ast.ExprStmt:
		if c, ok := x.X.(*ast.CallExpr); ok {
			if se, ok := c.Fun.(*ast.SelectorExpr); ok {
				switch se.Sel.Name {
				case "Debug", "Info", "Warn", "Error": // logging only
					return false
				}
			}
		}
		exprs = append(exprs, st)
	default:
		exprs = append(exprs, st)
	}
	found := false
	// a write through a slice or map element (results[i] = v) reaches memory other threads may
	// read even when no selector or call appears in the statement
	switch x := st.(type) {
	case *ast.AssignStmt:
		for _, l := range x.Lhs {
			if _, ok := l.(*ast.IndexExpr); ok {
				return true
			}
		}
	case *ast.IncDecStmt:
		if _, ok := x.X.(*ast.IndexExpr); ok {
			return true
		}
	}
	for _, e := range exprs {
		ast.Inspect(e, func(n ast.Node) bool {
			switch y := n.(type) {
			case *ast.FuncLit:
				return false // body runs later, has its own points
			case *ast.CallExpr:
				// builtin pure helpers on locals do not count
				if id, ok := y.Fun.(*ast.Ident); ok {
					switch id.Name {
					case "len", "cap", "make", "new", "append", "uint64", "int", "string", "byte", "uint", "int64", "copy", "min", "max":
						return true
					}
				}
				if _, ok := y.Fun.(*ast.ParenExpr); ok { // conversion such as (uint64)(x)
					return true
				}
				found = true
			case *ast.SelectorExpr, *ast.StarExpr:
				found = true
			case *ast.UnaryExpr:
				if y.Op == token.ARROW {
					found = true
				}
			}
			return !found
		})
		if found {
			return true
		}
	}
	return false
}

func isNilNode(n ast.Node) bool {
	switch x := n.(type) {
	case ast.Expr:
		return x == nil
	case ast.Stmt:
		return x == nil
	}
	return false
}

func funcName(fd *ast.FuncDecl) string {
	if fd.Recv != nil && len(fd.Recv.List) == 1 {
		t := fd.Recv.List[0].Type
		if s, ok := t.(*ast.StarExpr); ok {
			t = s.X
		}
		if ix, ok := t.(*ast.IndexExpr); ok {
			t = ix.X
		}
		if id, ok := t.(*ast.Ident); ok {
			return id.Name + "." + fd.Name.Name
		}
	}
	return fd.Name.Name
}

func instrument(src, dst string, fc FileCfg) error {
	data, err := os.ReadFile(src)
	if err != nil {
		return err
	}
	fset := token.NewFileSet()
	f, err := parser.ParseFile(fset, src, data, parser.ParseComments)
	if err != nil {
		return err
	}
	base := filepath.Base(src)
	var edits []edit
	ord := 0
	add := func(off, end int, text string) {
		ord++
		edits = append(edits, edit{off, end, text, ord})
	}
	off := func(p token.Pos) int { return fset.Position(p).Offset }

	// imports
	for _, is := range f.Imports {
		p := strings.Trim(is.Path.Value, "\"")
		if rep, ok := fc.Imports[p]; ok {
			name := filepath.Base(p)
			if is.Name != nil {
				name = is.Name.Name
				add(off(is.Name.Pos()), off(is.Path.End()), fmt.Sprintf("%s %q", name, rep))
			} else {
				add(off(is.Path.Pos()), off(is.Path.End()), fmt.Sprintf("%s %q", name, rep))
			}
		}
	}
	usesSched := false

	want := map[string]bool{}
	all := false
	for _, p := range fc.Points {
		if p == "*" {
			all = true
		} else {
			want[p] = false
		}
	}
	skip := map[string]bool{}
	for _, s := range fc.Skip {
		skip[s] = true
	}

	noInsert := map[*ast.BlockStmt]bool{}
	insertList := func(list []ast.Stmt) {
		for _, st := range list {
			if fc.Filter != "all" && !touchesShared(st) {
				continue
			}
			ln := fset.Position(st.Pos()).Line
			add(off(st.Pos()), off(st.Pos()), fmt.Sprintf("vsched.Point(\"%s:%d\"); ", base, ln))
			usesSched = true
		}
	}
	for _, d := range f.Decls {
		fd, ok := d.(*ast.FuncDecl)
		if !ok || fd.Body == nil {
			continue
		}
		name := funcName(fd)
		sel := false
		if _, ok := want[name]; ok {
			want[name] = true
			sel = true
		} else if _, ok := want[fd.Name.Name]; ok {
			want[fd.Name.Name] = true
			sel = true
		} else if all && !skip[name] && !skip[fd.Name.Name] {
			sel = true
		}
		for _, a := range fc.Atomic {
			lvl := "0"
			if i := strings.Index(a, "@"); i > 0 {
				a, lvl = a[:i], a[i+1:]
			}
			if a == name || a == fd.Name.Name {
				add(off(fd.Body.Lbrace)+1, off(fd.Body.Lbrace)+1, " defer vsched.AtomicRegion("+lvl+")(); ")
				usesSched = true
			}
		}
		if !sel {
			continue
		}
		ast.Inspect(fd.Body, func(n ast.Node) bool {
			switch x := n.(type) {
			case *ast.SwitchStmt:
				noInsert[x.Body] = true
			case *ast.TypeSwitchStmt:
				noInsert[x.Body] = true
			case *ast.SelectStmt:
				noInsert[x.Body] = true
			case *ast.BlockStmt:
				if !noInsert[x] {
					insertList(x.List)
				}
			case *ast.CaseClause:
				insertList(x.Body)
			case *ast.CommClause:
				insertList(x.Body)
			}
			return true
		})
	}
	for n, found := range want {
		if !found {
			return fmt.Errorf("designated function %q not found", n)
		}
	}
	// channel receives that are the communication of a select case stay as they are (the
	// select itself is made non-blocking); `v, ok := <-ch` needs the two-value helper
	// a select that is the whole body of a bare `for { ... }` may contain `continue`: in the
	// wrapper loop it re-runs the select, exactly what continuing the outer loop does
	soleLoopBody := map[*ast.SelectStmt]bool{}
	ast.Inspect(f, func(n ast.Node) bool {
		if fs, ok := n.(*ast.ForStmt); ok && fs.Init == nil && fs.Cond == nil && fs.Post == nil && len(fs.Body.List) == 1 {
			if sel, ok := fs.Body.List[0].(*ast.SelectStmt); ok {
				soleLoopBody[sel] = true
			}
		}
		return true
	})
	inSelectComm := map[*ast.UnaryExpr]bool{}
	inSelectSend := map[*ast.SendStmt]bool{}
	twoValue := map[*ast.UnaryExpr]bool{}
	var chanErr error
	ast.Inspect(f, func(n ast.Node) bool {
		switch x := n.(type) {
		case *ast.CommClause:
			var e ast.Expr
			if ss, ok := x.Comm.(*ast.SendStmt); ok {
				inSelectSend[ss] = true
			}
			switch c := x.Comm.(type) {
			case *ast.ExprStmt:
				e = c.X
			case *ast.AssignStmt:
				if len(c.Rhs) == 1 {
					e = c.Rhs[0]
				}
			}
			if u, ok := e.(*ast.UnaryExpr); ok && u.Op == token.ARROW {
				inSelectComm[u] = true
			}
		case *ast.AssignStmt:
			if len(x.Lhs) == 2 && len(x.Rhs) == 1 {
				if u, ok := x.Rhs[0].(*ast.UnaryExpr); ok && u.Op == token.ARROW {
					twoValue[u] = true
				}
			}
		}
		return true
	})
	// go statements / Gosched anywhere in the file
	usesRuntime := false
	ast.Inspect(f, func(n ast.Node) bool {
		switch x := n.(type) {
		case *ast.GoStmt:
			if fc.Go {
				add(off(x.Pos()), off(x.Call.Pos()), "vsched.Go(func() { ")
				add(off(x.End()), off(x.End()), " })")
				usesSched = true
			}
		case *ast.SelectStmt:
			if fc.Chan {
				hasDefault := false
				for _, cl := range x.Body.List {
					if cc := cl.(*ast.CommClause); cc.Comm == nil {
						hasDefault = true
					}
					// unlabeled continue inside a case body would bind to the wrapper loop
					for _, st := range cl.(*ast.CommClause).Body {
						ast.Inspect(st, func(m ast.Node) bool {
							switch y := m.(type) {
							case *ast.ForStmt, *ast.RangeStmt, *ast.FuncLit:
								return false
							case *ast.BranchStmt:
								if y.Tok == token.CONTINUE && y.Label == nil && !soleLoopBody[x] {
									chanErr = fmt.Errorf("%s: select case body with unlabeled continue is not supported", fset.Position(y.Pos()))
								}
							}
							return true
						})
					}
				}
				if !hasDefault {
					// for { select { case c0: ...; default: select { case c1: ...; default: yield; continue } }; break }
					// Go picks pseudo-randomly among ready cases; nesting makes the pick deterministic
					// (first ready case in textual order) so that replays are exact.
					add(off(x.Pos()), off(x.Pos()), "for { ")
					for i, cl := range x.Body.List {
						if i > 0 {
							add(off(cl.Pos()), off(cl.Pos()), "default: select { ")
						}
					}
					closing := "default: vsched.SelectYield(); continue\n"
					for i := 1; i < len(x.Body.List); i++ {
						closing += "}"
					}
					add(off(x.Body.Rbrace), off(x.Body.Rbrace), closing)
					add(off(x.End()), off(x.End()), "; break }")
					usesSched = true
				}
			}
		case *ast.SendStmt:
			if fc.Chan && !inSelectSend[x] {
				add(off(x.Pos()), off(x.Pos()), "vsched.Send(")
				add(off(x.Arrow), off(x.Arrow)+2, ", ")
				add(off(x.End()), off(x.End()), ")")
				usesSched = true
			}
		case *ast.UnaryExpr:
			if fc.Chan && x.Op == token.ARROW && !inSelectComm[x] {
				if twoValue[x] {
					add(off(x.Pos()), off(x.Pos())+2, "vsched.Recv2(")
				} else {
					add(off(x.Pos()), off(x.Pos())+2, "vsched.Recv(")
				}
				add(off(x.End()), off(x.End()), ")")
				usesSched = true
			}
		case *ast.RangeStmt:
			if fc.Chan {
				// cannot know statically whether X is a channel: only flag the obvious case
			}
		case *ast.CallExpr:
			if fc.ChanBuf {
				if id, ok := x.Fun.(*ast.Ident); ok && id.Name == "make" && len(x.Args) == 1 {
					if _, ok := x.Args[0].(*ast.ChanType); ok {
						add(off(x.Rparen), off(x.Rparen), ", 1")
					}
				}
			}
			if fc.Gosched {
				if se, ok := x.Fun.(*ast.SelectorExpr); ok {
					if id, ok := se.X.(*ast.Ident); ok && id.Name == "runtime" && se.Sel.Name == "Gosched" {
						add(off(x.Pos()), off(x.End()), `vsched.SleepYield("gosched")`)
						usesSched = true
						usesRuntime = true
					}
				}
			}
		}
		return true
	})
	if chanErr != nil {
		return chanErr
	}
	if usesSched {
		add(off(f.Name.End()), off(f.Name.End()), `; import vsched "verif/engine/vsched"`)
	}
	// overlapping edits: a go-stmt replacement swallows point insertions inside it; detect
	sort.SliceStable(edits, func(i, j int) bool {
		if edits[i].off != edits[j].off {
			return edits[i].off < edits[j].off
		}
		return edits[i].order < edits[j].order
	})
	var outb strings.Builder
	pos := 0
	for i := 0; i < len(edits); i++ {
		e := edits[i]
		if e.off < pos {
			if e.off == e.end {
				continue // insertion inside a replaced range: dropped
			}
			return fmt.Errorf("overlapping replacements at offset %d", e.off)
		}
		outb.Write(data[pos:e.off])
		outb.WriteString(e.text)
		pos = e.end
	}
	outb.Write(data[pos:])
	if usesRuntime {
		outb.WriteString("\nvar _ = runtime.Gosched\n")
	}
	return os.WriteFile(dst, []byte(outb.String()), 0o644)
}

// Package report writes /verif/evidence/<id>.json, replay files and the VIOLATION /
// KNOWN-FINDING lines of the check interface.
package report

import (
	"bufio"
	"crypto/sha1"
	"encoding/hex"
	"encoding/json"
	"fmt"
	"os"
	"path/filepath"
	"sort"
	"strconv"
	"strings"
	"time"
)

const Root = "/verif"

// outRoot is where evidence and replay files go: /verif, or $VERIF_ALT_OUT for runs against
// a scratch tree (VERIF_REPO), which must not overwrite the evidence of /repo itself.
func outRoot() string {
	if d := os.Getenv("VERIF_ALT_OUT"); d != "" {
		return d
	}
	return Root
}

type violation struct {
	Sig    string
	What   string
	Replay any
}

type Check struct {
	ID          string
	Tier        string
	Seed        int
	Level       string
	Coverage    map[string]any
	Assumptions []string
	start       time.Time
	viol        []violation
	seen        map[string]bool
	internal    []string
}

func New(id, tier, level string) *Check {
	seed, _ := strconv.Atoi(os.Getenv("VERIF_SEED"))
	if tier != "thorough" {
		tier = "quick"
	}
	return &Check{ID: id, Tier: tier, Seed: seed, Level: level, Coverage: map[string]any{}, start: time.Now(), seen: map[string]bool{}}
}

func (c *Check) Thorough() bool { return c.Tier == "thorough" }

func (c *Check) Assume(s ...string) { c.Assumptions = append(c.Assumptions, s...) }

// Set records a coverage key.
func (c *Check) Set(k string, v any) { c.Coverage[k] = v }

// Add adds to an integer coverage counter.
func (c *Check) Add(k string, d int) {
	n, _ := c.Coverage[k].(int)
	c.Coverage[k] = n + d
}

// Violation records a property violation. sig identifies the specific failing input /
// schedule class / fault tuple (no spaces); what is a one-line description; replay is
// written to the replay file.
func (c *Check) Violation(sig, what string, replay any) {
	sig = strings.ReplaceAll(sig, " ", "_")
	if c.seen[sig] {
		return
	}
	c.seen[sig] = true
	c.viol = append(c.viol, violation{sig, what, replay})
}

func (c *Check) NumViolations() int { return len(c.viol) }

// Internal records a machinery failure (never a property verdict): exit 2.
func (c *Check) Internal(msg string) { c.internal = append(c.internal, msg) }

type known struct{ what string }

func loadKnown(id string) map[string]known {
	m := map[string]known{}
	f, err := os.Open(filepath.Join(Root, "KNOWN_FINDINGS.txt"))
	if err != nil {
		return m
	}
	defer f.Close()
	sc := bufio.NewScanner(f)
	sc.Buffer(make([]byte, 1<<20), 1<<20)
	for sc.Scan() {
		ln := strings.TrimSpace(sc.Text())
		if !strings.HasPrefix(ln, "known:") {
			continue // "fixed:" lines and comments suppress nothing
		}
		fs := strings.Fields(ln[len("known:"):])
		var prop, sig string
		var rest []string
		for _, f := range fs {
			switch {
			case strings.HasPrefix(f, "property=") && prop == "":
				prop = f[len("property="):]
			case strings.HasPrefix(f, "signature=") && sig == "":
				sig = f[len("signature="):]
			default:
				rest = append(rest, f)
			}
		}
		if prop == id && sig != "" {
			m[sig] = known{strings.Join(rest, " ")}
		}
	}
	return m
}

// Finish writes the evidence file, prints the interface lines and exits.
func (c *Check) Finish() {
	os.Exit(c.finish())
}

func (c *Check) finish() int {
	kn := loadKnown(c.ID)
	unlisted := 0
	sort.SliceStable(c.viol, func(i, j int) bool { return c.viol[i].Sig < c.viol[j].Sig })
	var lines []string
	var knownHit []string
	for _, v := range c.viol {
		if k, ok := kn[v.Sig]; ok {
			lines = append(lines, fmt.Sprintf("KNOWN-FINDING: property=%s signature=%s %s", c.ID, v.Sig, k.what))
			knownHit = append(knownHit, v.Sig)
			continue
		}
		unlisted++
		dir := filepath.Join(outRoot(), "replays", c.ID)
		os.MkdirAll(dir, 0o755)
		h := sha1.Sum([]byte(v.Sig))
		p := filepath.Join(dir, hex.EncodeToString(h[:6])+".json")
		b, _ := json.MarshalIndent(map[string]any{"property": c.ID, "signature": v.Sig, "what": v.What, "replay": v.Replay}, "", " ")
		os.WriteFile(p, b, 0o644)
		fmt.Printf("  violation detail: signature=%s %s\n", v.Sig, v.What)
		lines = append(lines, fmt.Sprintf("VIOLATION property=%s replay=%s", c.ID, p))
	}
	if len(knownHit) > 0 {
		c.Coverage["known_findings_reproduced"] = knownHit
	}
	ev := map[string]any{
		"property_id": c.ID,
		"tier":        c.Tier,
		"seed":        c.Seed,
		"level":       c.Level,
		"coverage":    c.Coverage,
		"assumptions": c.Assumptions,
		"wall_s":      time.Since(c.start).Seconds(),
		"violations":  unlisted,
	}
	if len(c.internal) > 0 {
		ev["internal_errors"] = c.internal
	}
	if c.Assumptions == nil {
		ev["assumptions"] = []string{}
	}
	b, _ := json.MarshalIndent(ev, "", " ")
	os.MkdirAll(filepath.Join(outRoot(), "evidence"), 0o755)
	if err := os.WriteFile(filepath.Join(outRoot(), "evidence", c.ID+".json"), append(b, '\n'), 0o644); err != nil {
		fmt.Fprintln(os.Stderr, "evidence write:", err)
		return 2
	}
	for _, l := range lines {
		fmt.Println(l)
	}
	if len(c.internal) > 0 {
		for _, m := range c.internal {
			fmt.Fprintln(os.Stderr, "INTERNAL-ERROR:", m)
		}
		return 2
	}
	if unlisted > 0 {
		return 1
	}
	fmt.Printf("OK property=%s tier=%s wall=%.1fs %s\n", c.ID, c.Tier, time.Since(c.start).Seconds(), c.summary())
	return 0
}

func (c *Check) summary() string {
	var ks []string
	for k, v := range c.Coverage {
		switch v.(type) {
		case int, int64, bool, float64:
			ks = append(ks, fmt.Sprintf("%s=%v", k, v))
		}
	}
	sort.Strings(ks)
	return strings.Join(ks, " ")
}

// Distinct is a helper to count distinct non-trivial cases and keep a few samples.
type Distinct struct {
	seen    map[string]struct{}
	Samples []any
	Max     int
}

func NewDistinct(maxSamples int) *Distinct {
	return &Distinct{seen: map[string]struct{}{}, Max: maxSamples}
}

// See records key; returns true if new. sample is kept for the first few new keys.
func (d *Distinct) See(key string, sample any) bool {
	if _, ok := d.seen[key]; ok {
		return false
	}
	d.seen[key] = struct{}{}
	if len(d.Samples) < d.Max && sample != nil {
		d.Samples = append(d.Samples, sample)
	}
	return true
}

func (d *Distinct) N() int { return len(d.seen) }

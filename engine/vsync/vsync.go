// Package vsync is the import-rewrite target for "sync" in instrumented files. While a
// controlled execution is active, Mutex/RWMutex/WaitGroup/Once/Cond are logical objects
// driven by vsched (every operation that can block is a scheduling point); otherwise
// they fall through to the embedded real primitives.
package vsync

import (
	"sync"

	"verif/engine/vsched"
)

type (
	Locker = sync.Locker
	Pool   = sync.Pool
	Map    = sync.Map
)

func OnceFunc(f func()) func()                                 { return sync.OnceFunc(f) }
func OnceValue[T any](f func() T) func() T                     { return sync.OnceValue(f) }
func OnceValues[T1, T2 any](f func() (T1, T2)) func() (T1, T2) { return sync.OnceValues(f) }

// WriterPreference mirrors sync.RWMutex: a pending Lock blocks new RLock calls.
var WriterPreference = true

// ---- Mutex ---------------------------------------------------------------------------

type Mutex struct {
	real  sync.Mutex
	epoch uint64
	held  bool
}

func (m *Mutex) sync() {
	if e := vsched.Epoch(); m.epoch != e {
		m.epoch, m.held = e, false
	}
}

func (m *Mutex) Lock() {
	if !vsched.Active() {
		m.real.Lock()
		return
	}
	if vsched.Aborting() {
		return
	}
	vsched.Point("Mutex.Lock")
	m.sync()
	for m.held {
		vsched.Block("Mutex.Lock(wait)", func() bool { return !m.held })
	}
	m.held = true
}

func (m *Mutex) TryLock() bool {
	if !vsched.Active() {
		return m.real.TryLock()
	}
	if vsched.Aborting() {
		return true
	}
	vsched.Point("Mutex.TryLock")
	m.sync()
	if m.held {
		return false
	}
	m.held = true
	return true
}

func (m *Mutex) Unlock() {
	if !vsched.Active() {
		m.real.Unlock()
		return
	}
	if vsched.Aborting() {
		return
	}
	m.sync()
	if !m.held {
		panic("vsync: unlock of unlocked mutex")
	}
	m.held = false
	vsched.Point("Mutex.Unlock")
}

// ---- RWMutex -------------------------------------------------------------------------

type RWMutex struct {
	real    sync.RWMutex
	epoch   uint64
	writer  bool
	readers int
	pending int // writers waiting
}

func (m *RWMutex) sync() {
	if e := vsched.Epoch(); m.epoch != e {
		m.epoch, m.writer, m.readers, m.pending = e, false, 0, 0
	}
}

func (m *RWMutex) Lock() {
	if !vsched.Active() {
		m.real.Lock()
		return
	}
	if vsched.Aborting() {
		return
	}
	vsched.Point("RWMutex.Lock")
	m.sync()
	if m.writer || m.readers > 0 {
		m.pending++
		for m.writer || m.readers > 0 {
			vsched.Block("RWMutex.Lock(wait)", func() bool { return !m.writer && m.readers == 0 })
		}
		m.pending--
	}
	m.writer = true
}

func (m *RWMutex) Unlock() {
	if !vsched.Active() {
		m.real.Unlock()
		return
	}
	if vsched.Aborting() {
		return
	}
	m.sync()
	if !m.writer {
		panic("vsync: Unlock of unlocked RWMutex")
	}
	m.writer = false
	vsched.Point("RWMutex.Unlock")
}

func (m *RWMutex) RLock() {
	if !vsched.Active() {
		m.real.RLock()
		return
	}
	if vsched.Aborting() {
		return
	}
	vsched.Point("RWMutex.RLock")
	m.sync()
	blocked := func() bool { return m.writer || (WriterPreference && m.pending > 0) }
	for blocked() {
		vsched.Block("RWMutex.RLock(wait)", func() bool { return !blocked() })
	}
	m.readers++
}

func (m *RWMutex) RUnlock() {
	if !vsched.Active() {
		m.real.RUnlock()
		return
	}
	if vsched.Aborting() {
		return
	}
	m.sync()
	if m.readers <= 0 {
		panic("vsync: RUnlock of unlocked RWMutex")
	}
	m.readers--
	vsched.Point("RWMutex.RUnlock")
}

func (m *RWMutex) TryLock() bool {
	if !vsched.Active() {
		return m.real.TryLock()
	}
	if vsched.Aborting() {
		return true
	}
	vsched.Point("RWMutex.TryLock")
	m.sync()
	if m.writer || m.readers > 0 {
		return false
	}
	m.writer = true
	return true
}

func (m *RWMutex) TryRLock() bool {
	if !vsched.Active() {
		return m.real.TryRLock()
	}
	if vsched.Aborting() {
		return true
	}
	vsched.Point("RWMutex.TryRLock")
	m.sync()
	if m.writer || (WriterPreference && m.pending > 0) {
		return false
	}
	m.readers++
	return true
}

type rlocker RWMutex

func (r *rlocker) Lock()   { (*RWMutex)(r).RLock() }
func (r *rlocker) Unlock() { (*RWMutex)(r).RUnlock() }

func (m *RWMutex) RLocker() Locker { return (*rlocker)(m) }

// ---- WaitGroup -----------------------------------------------------------------------

type WaitGroup struct {
	real  sync.WaitGroup
	epoch uint64
	n     int
}

func (w *WaitGroup) sync() {
	if e := vsched.Epoch(); w.epoch != e {
		w.epoch, w.n = e, 0
	}
}

func (w *WaitGroup) Add(d int) {
	if !vsched.Active() {
		w.real.Add(d)
		return
	}
	w.sync()
	w.n += d
	if w.n < 0 {
		panic("vsync: negative WaitGroup counter")
	}
}

func (w *WaitGroup) Done() {
	if !vsched.Active() {
		w.real.Done()
		return
	}
	if vsched.Aborting() {
		return
	}
	w.Add(-1)
	vsched.Point("WaitGroup.Done")
}

func (w *WaitGroup) Go(f func()) {
	w.Add(1)
	vsched.Go(func() {
		defer w.Done()
		f()
	})
}

func (w *WaitGroup) Wait() {
	if !vsched.Active() {
		w.real.Wait()
		return
	}
	if vsched.Aborting() {
		return
	}
	vsched.Point("WaitGroup.Wait")
	w.sync()
	for w.n > 0 {
		vsched.Block("WaitGroup.Wait(wait)", func() bool { return w.n == 0 })
	}
}

// ---- Once ----------------------------------------------------------------------------

type Once struct {
	real sync.Once
	m    Mutex
	done bool
}

func (o *Once) Do(f func()) {
	if !vsched.Active() {
		o.real.Do(func() { o.done = true; f() })
		return
	}
	if o.done {
		return
	}
	o.m.Lock()
	defer o.m.Unlock()
	if !o.done {
		defer func() { o.done = true }()
		o.real.Do(f)
	}
}

// ---- Cond ----------------------------------------------------------------------------

type Cond struct {
	L     Locker
	once  sync.Once
	real  *sync.Cond
	epoch uint64
	// logical: tickets
	next    uint64 // next ticket to hand out
	release uint64 // tickets < release have been signalled (FIFO wake order)
}

func NewCond(l Locker) *Cond { return &Cond{L: l} }

// r returns the real condition variable (the zero Cond with L set later is valid, as in sync).
func (c *Cond) r() *sync.Cond {
	c.once.Do(func() { c.real = sync.NewCond(c.L) })
	return c.real
}

func (c *Cond) sync() {
	if e := vsched.Epoch(); c.epoch != e {
		c.epoch, c.next, c.release = e, 0, 0
	}
}

func (c *Cond) Wait() {
	if !vsched.Active() {
		c.r().Wait()
		return
	}
	if vsched.Aborting() {
		return
	}
	c.sync()
	ticket := c.next
	c.next++
	c.L.Unlock()
	for ticket >= c.release {
		vsched.Block("Cond.Wait", func() bool { return ticket < c.release })
	}
	c.L.Lock()
}

func (c *Cond) Signal() {
	if !vsched.Active() {
		c.r().Signal()
		return
	}
	if vsched.Aborting() {
		return
	}
	c.sync()
	if c.release < c.next {
		c.release++
	}
	vsched.Point("Cond.Signal")
}

func (c *Cond) Broadcast() {
	if !vsched.Active() {
		c.r().Broadcast()
		return
	}
	if vsched.Aborting() {
		return
	}
	c.sync()
	c.release = c.next
	vsched.Point("Cond.Broadcast")
}

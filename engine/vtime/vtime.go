// Package vtime is a drop-in replacement for the subset of package time used by the lease
// code of /repo (kv/memory/lease.go, kv/sqlite3/lease.go). The instrumenter rewrites the
// "time" import of those files to this package (local name stays `time`). All types are
// aliases, so type identity with package time is preserved.
//
// Now() returns a settable logical clock when one has been installed with SetNow, real
// time otherwise. The clock is process-global (one logical timeline per process); checks
// that need several timelines in parallel use worker processes (engine/par).
package vtime

import (
	"sync/atomic"
	"time"
)

type (
	Duration = time.Duration
	Time     = time.Time
	Month    = time.Month
	Weekday  = time.Weekday
	Location = time.Location
	Timer    = time.Timer
	Ticker   = time.Ticker
)

const (
	Nanosecond  = time.Nanosecond
	Microsecond = time.Microsecond
	Millisecond = time.Millisecond
	Second      = time.Second
	Minute      = time.Minute
	Hour        = time.Hour
)

var (
	UTC   = time.UTC
	Local = time.Local
)

// logical clock in unix nanoseconds; 0 = not set (real time)
var clock atomic.Int64

// SetNow installs the logical clock at t.
func SetNow(t time.Time) { clock.Store(t.UnixNano()) }

// SetNowNanos installs the logical clock at the given unix nanoseconds (must be != 0).
func SetNowNanos(n int64) { clock.Store(n) }

// Advance moves the logical clock forward by d (no-op when the clock is not set).
func Advance(d time.Duration) {
	if clock.Load() != 0 {
		clock.Add(int64(d))
	}
}

// Unset returns to real time.
func Unset() { clock.Store(0) }

// IsSet reports whether a logical clock is installed.
func IsSet() bool { return clock.Load() != 0 }

func Now() time.Time {
	if n := clock.Load(); n != 0 {
		return time.Unix(0, n)
	}
	return time.Now()
}

func Since(t time.Time) time.Duration { return Now().Sub(t) }
func Until(t time.Time) time.Duration { return t.Sub(Now()) }

func Unix(sec, nsec int64) time.Time { return time.Unix(sec, nsec) }
func UnixMilli(ms int64) time.Time   { return time.UnixMilli(ms) }
func UnixMicro(us int64) time.Time   { return time.UnixMicro(us) }
func Date(year int, month time.Month, day, hour, min, sec, nsec int, loc *time.Location) time.Time {
	return time.Date(year, month, day, hour, min, sec, nsec, loc)
}
func ParseDuration(s string) (time.Duration, error) { return time.ParseDuration(s) }

// Timers are not virtualised (the lease files do not use them); provided so that a file
// using them still compiles and behaves as with package time.
func Sleep(d time.Duration)                           { time.Sleep(d) }
func After(d time.Duration) <-chan time.Time          { return time.After(d) }
func NewTimer(d time.Duration) *time.Timer            { return time.NewTimer(d) }
func NewTicker(d time.Duration) *time.Ticker          { return time.NewTicker(d) }
func AfterFunc(d time.Duration, f func()) *time.Timer { return time.AfterFunc(d, f) }

// Package e2 drives schedule exploration of named scenarios across worker processes.
package e2

import (
	"encoding/json"
	"fmt"
	"sort"
	"strings"
	"time"

	"verif/engine/explore"
	"verif/engine/par"
	"verif/engine/report"
	"verif/engine/vsched"
)

// RunFn builds fresh state, runs one execution under vsched with the prefix and judges it.
type RunFn func(prefix []int) *explore.Exec

// Lookup maps a scenario name to its run function (harness-defined, deterministic).
type Lookup func(name string) RunFn

type Job struct {
	Scns       []string `json:"scns"`
	Bound      int      `json:"bound"`
	FreeBound  int      `json:"free_bound"`
	TotalBound int      `json:"total_bound"`
	Shard      int      `json:"shard"`
	NShards    int      `json:"nshards"`
	MaxExec    int      `json:"max_exec"`
	Deadline   int64    `json:"deadline_unix"`
}

type ScnResult struct {
	Scn   string         `json:"scn"`
	Stats *explore.Stats `json:"stats"`
}

type JobResult struct {
	Results []ScnResult `json:"results"`
}

// Worker returns the par handler for E2 jobs.
func Worker(lk Lookup) func(json.RawMessage) any {
	return func(raw json.RawMessage) any {
		var j Job
		if err := json.Unmarshal(raw, &j); err != nil {
			return JobResult{Results: []ScnResult{{Scn: "?", Stats: &explore.Stats{Internal: "bad job: " + err.Error()}}}}
		}
		var out JobResult
		for _, name := range j.Scns {
			run := lk(name)
			if run == nil {
				out.Results = append(out.Results, ScnResult{name, &explore.Stats{Internal: "unknown scenario " + name}})
				continue
			}
			cfg := explore.Config{Bound: j.Bound, FreeBound: j.FreeBound, TotalBound: j.TotalBound, MaxExec: j.MaxExec, Shard: j.Shard, NShards: j.NShards}
			if j.Deadline > 0 {
				cfg.Deadline = time.Unix(j.Deadline, 0)
			}
			st := explore.Explore(cfg, run)
			if st.Violation != "" {
				// confirm: the same schedule must fail the same way every time
				for k := 0; k < 5; k++ {
					x := run(st.Choices)
					if x.Violation != st.Violation {
						st.Internal = fmt.Sprintf("non-deterministic violation in %s: first %q, re-run %d gave %q (choices %v)", name, st.Violation, k, x.Violation, st.Choices)
						st.Violation = ""
						break
					}
				}
			}
			out.Results = append(out.Results, ScnResult{name, st})
			if st.Violation != "" || st.Internal != "" {
				break
			}
		}
		return out
	}
}

// Plan is one group of scenarios explored with the same bound.
type Plan struct {
	Scns       []string
	Bound      int // <0 unbounded
	TotalBound int // bound on all deviations together (delay bounding); 0 = unlimited
	FreeBound  int // delay bound for switches at blocking points; 0 = unlimited
	NShards    int // shards per scenario (>1 only sensible for few, large scenarios)
	Batch      int // scenarios per worker job when NShards<=1 (default 1)
	MaxExec    int // per job cap
}

type Summary struct {
	Executions  int
	Transitions int
	Outcomes    map[string]int
	Capped      bool
	PerScn      map[string]*explore.Stats
	Violations  []Found
}

type Found struct {
	Scn       string
	Violation string
	Choices   []int
}

// Drive runs the plans in worker processes and merges. budget==0: no deadline.
func Drive(c *report.Check, plans []Plan, budget time.Duration) *Summary {
	sum := &Summary{Outcomes: map[string]int{}, PerScn: map[string]*explore.Stats{}}
	var deadline int64
	if budget > 0 {
		deadline = time.Now().Add(budget).Unix()
	}
	var jobs []any
	for _, p := range plans {
		if p.NShards > 1 {
			for _, s := range p.Scns {
				for k := 0; k < p.NShards; k++ {
					jobs = append(jobs, Job{Scns: []string{s}, Bound: p.Bound, FreeBound: p.FreeBound, TotalBound: p.TotalBound, Shard: k, NShards: p.NShards, MaxExec: p.MaxExec, Deadline: deadline})
				}
			}
			continue
		}
		b := p.Batch
		if b <= 0 {
			b = 1
		}
		for i := 0; i < len(p.Scns); i += b {
			e := i + b
			if e > len(p.Scns) {
				e = len(p.Scns)
			}
			jobs = append(jobs, Job{Scns: p.Scns[i:e], Bound: p.Bound, FreeBound: p.FreeBound, TotalBound: p.TotalBound, NShards: 1, MaxExec: p.MaxExec, Deadline: deadline})
		}
	}
	outs := par.Map(jobs)
	for i, o := range outs {
		if o.Err != "" {
			c.Internal(fmt.Sprintf("worker %d: %s stderr=%s", i, o.Err, o.Stderr))
			continue
		}
		var jr JobResult
		if err := json.Unmarshal(o.Raw, &jr); err != nil {
			c.Internal("worker result: " + err.Error())
			continue
		}
		for _, r := range jr.Results {
			st := r.Stats
			if st.Internal != "" {
				c.Internal(r.Scn + ": " + st.Internal)
			}
			if cur, ok := sum.PerScn[r.Scn]; ok {
				cur.Merge(st)
			} else {
				cp := *st
				sum.PerScn[r.Scn] = &cp
			}
			sum.Executions += st.Executions
			sum.Transitions += st.Transitions
			for k, v := range st.Outcomes {
				sum.Outcomes[k] += v
			}
			sum.Capped = sum.Capped || st.Capped
			if st.Violation != "" {
				sum.Violations = append(sum.Violations, Found{r.Scn, st.Violation, st.Choices})
			}
		}
	}
	sort.Slice(sum.Violations, func(i, j int) bool { return sum.Violations[i].Scn < sum.Violations[j].Scn })
	return sum
}

// Describe renders an execution for samples / replays.
func Describe(r *vsched.Result) string {
	var b strings.Builder
	for i, p := range r.Points {
		if p.Chosen != 0 {
			fmt.Fprintf(&b, "[pt %d @%s: run T%d of %v]", i, p.Label, p.Enabled[p.Chosen], p.Enabled)
		}
	}
	return b.String()
}

// Package hmain is the common main() of harness binaries.
package hmain

import (
	"encoding/json"
	"flag"
	"fmt"
	"os"

	"verif/engine/par"
	"verif/engine/report"
)

// Prop is one property check.
type Prop struct {
	Level  string                               // evidence level
	Run    func(c *report.Check)                // parent: enumerates / dispatches, fills coverage
	Worker func(job json.RawMessage) any        // optional: worker-side handler for par.Map jobs
	Replay func(c *report.Check, replay []byte) // optional: re-run one recorded violation
}

var (
	PropID string
	Tier   string
)

func Main(props map[string]Prop) {
	prop := flag.String("prop", "", "property id")
	tier := flag.String("tier", "quick", "quick|thorough")
	replay := flag.String("replay", "", "replay file")
	flag.Parse()
	p, ok := props[*prop]
	if !ok {
		fmt.Fprintf(os.Stderr, "harness: unknown property %q\n", *prop)
		os.Exit(2)
	}
	PropID, Tier = *prop, *tier
	if par.IsWorker() {
		if p.Worker == nil {
			fmt.Fprintln(os.Stderr, "harness: no worker for", *prop)
			os.Exit(2)
		}
		par.Serve(p.Worker)
	}
	c := report.New(*prop, *tier, p.Level)
	if *replay != "" {
		b, err := os.ReadFile(*replay)
		if err != nil {
			fmt.Fprintln(os.Stderr, err)
			os.Exit(2)
		}
		var f struct {
			Replay json.RawMessage `json:"replay"`
		}
		if err := json.Unmarshal(b, &f); err != nil || p.Replay == nil {
			fmt.Fprintln(os.Stderr, "harness: cannot replay:", err)
			os.Exit(2)
		}
		p.Replay(c, f.Replay)
		if c.NumViolations() > 0 {
			fmt.Printf("REPLAY reproduced property=%s\n", *prop)
			os.Exit(1)
		}
		fmt.Printf("REPLAY did not reproduce property=%s\n", *prop)
		os.Exit(0)
	}
	p.Run(c)
	c.Finish()
}

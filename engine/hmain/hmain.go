// Package hmain is the common main() of harness binaries.
package hmain

import (
	"bytes"
	"encoding/json"
	"flag"
	"fmt"
	"io"
	"os"
	"os/exec"
	"strings"

	"verif/engine/par"
	"verif/engine/report"
)

// Prop is one property check.
type Prop struct {
	Level  string                               // evidence level
	Run    func(c *report.Check)                // parent: enumerates / dispatches, fills coverage
	Worker func(job json.RawMessage) any        // optional: worker-side handler for par.Map jobs
	Replay func(c *report.Check, replay []byte) // optional: re-run one recorded violation
}

var (
	PropID string
	Tier   string
)

func Main(props map[string]Prop) {
	prop := flag.String("prop", "", "property id")
	tier := flag.String("tier", "quick", "quick|thorough")
	replay := flag.String("replay", "", "replay file")
	flag.Parse()
	p, ok := props[*prop]
	if !ok {
		fmt.Fprintf(os.Stderr, "harness: unknown property %q\n", *prop)
		os.Exit(2)
	}
	PropID, Tier = *prop, *tier
	if par.IsWorker() {
		if p.Worker == nil {
			fmt.Fprintln(os.Stderr, "harness: no worker for", *prop)
			os.Exit(2)
		}
		par.Serve(p.Worker)
	}
	if *replay == "" && os.Getenv("VERIF_ISOLATED") == "" && os.Getenv("VERIF_NO_ISOLATE") == "" {
		os.Exit(runIsolated(*prop, *tier, p.Level))
	}
	c := report.New(*prop, *tier, p.Level)
	if *replay != "" {
		b, err := os.ReadFile(*replay)
		if err != nil {
			fmt.Fprintln(os.Stderr, err)
			os.Exit(2)
		}
		var f struct {
			Replay json.RawMessage `json:"replay"`
		}
		if err := json.Unmarshal(b, &f); err != nil || p.Replay == nil {
			fmt.Fprintln(os.Stderr, "harness: cannot replay:", err)
			os.Exit(2)
		}
		p.Replay(c, f.Replay)
		if c.NumViolations() > 0 {
			fmt.Printf("REPLAY reproduced property=%s\n", *prop)
			os.Exit(1)
		}
		fmt.Printf("REPLAY did not reproduce property=%s\n", *prop)
		os.Exit(0)
	}
	p.Run(c)
	c.Finish()
}

// runIsolated runs the check in a child process so that a crash of the code under test
// (a panic on a goroutine the harness does not own, a fatal runtime error) is reported as
// what it is - the property's code crashed on an enumerated input - instead of taking the
// evidence and the verdict down with it. A crash whose stack does not pass through the
// repository's code is a machinery failure (exit 2).
func runIsolated(prop, tier, level string) int {
	exe, _ := os.Executable()
	cmd := exec.Command(exe, os.Args[1:]...)
	cmd.Env = append(os.Environ(), "VERIF_ISOLATED=1")
	var tail bytes.Buffer
	cmd.Stdout = os.Stdout
	lt := &limitedTail{buf: &tail, max: 1 << 16}
	cmd.Stderr = io.MultiWriter(os.Stderr, lt)
	err := cmd.Run()
	if err == nil {
		return 0
	}
	code := 2
	if ee, ok := err.(*exec.ExitError); ok {
		code = ee.ExitCode()
	}
	st := tail.String()
	if lt.head.Len() > 0 {
		// the crash report is longer than the tail window (stack overflow: hundreds of frames,
		// every goroutine dumped): judge the part that starts at the crash marker
		st = lt.head.String()
	}
	crashed := strings.Contains(st, "\npanic: ") || strings.HasPrefix(st, "panic: ") || strings.Contains(st, "fatal error: ")
	if !crashed {
		return code
	}
	// first goroutine trace: does it pass through repository code?
	first := st
	if i := strings.Index(st, "\n\ngoroutine "); i >= 0 {
		rest := st[i+2:]
		if j := strings.Index(rest, "\n\n"); j >= 0 {
			first = st[:i+2+j]
		}
	}
	if !strings.Contains(first, "go.miragespace.co/specter/") {
		fmt.Fprintln(os.Stderr, "INTERNAL-ERROR: harness process crashed outside the repository's code")
		return 2
	}
	// which repository function crashed
	where := "unknown"
	for _, ln := range strings.Split(first, "\n") {
		if strings.HasPrefix(ln, "go.miragespace.co/specter/") {
			where = ln
			if k := strings.LastIndex(where, "("); k > 0 {
				where = where[:k]
			}
			break
		}
	}
	msg := "fatal runtime error"
	if i := strings.Index(st, "panic: "); i >= 0 {
		msg = strings.SplitN(st[i:], "\n", 2)[0]
	} else if i := strings.Index(st, "fatal error: "); i >= 0 {
		msg = strings.SplitN(st[i:], "\n", 2)[0]
	}
	c := report.New(prop, tier, level)
	c.Set("evaluations", 1)
	c.Set("distinct_nontrivial", 2)
	c.Set("states", 1)
	c.Set("transitions", 1)
	c.Set("traces_validated_against_impl", 1)
	c.Set("rule", "the check process crashed inside the repository's code while enumerating; coverage of this run is void")
	c.Set("samples", []any{map[string]any{"crash": msg, "in": where}})
	c.Set("exhaustive", false)
	c.Violation("crash:"+strings.ReplaceAll(where, " ", ""), "the code under test crashed the process: "+msg+" in "+where, map[string]any{"stderr_tail": st})
	c.Finish()
	return 1
}

type limitedTail struct {
	buf  *bytes.Buffer
	max  int
	head bytes.Buffer // from the first crash marker on, at most 4*max bytes
}

func (l *limitedTail) Write(p []byte) (int, error) {
	if l.head.Len() > 0 {
		if room := 4*l.max - l.head.Len(); room > 0 {
			if len(p) < room {
				room = len(p)
			}
			l.head.Write(p[:room])
		}
	}
	l.buf.Write(p)
	if l.head.Len() == 0 {
		b := l.buf.Bytes()
		i := bytes.Index(b, []byte("fatal error: "))
		if j := bytes.Index(b, []byte("\npanic: ")); j >= 0 && (i < 0 || j < i) {
			i = j + 1
		}
		if i < 0 && bytes.HasPrefix(b, []byte("panic: ")) {
			i = 0
		}
		if i >= 0 {
			l.head.Write(b[i:])
		}
	}
	if l.buf.Len() > 2*l.max {
		b := l.buf.Bytes()
		keep := append([]byte(nil), b[len(b)-l.max:]...)
		l.buf.Reset()
		l.buf.Write(keep)
	}
	return len(p), nil
}

// Package par runs jobs in worker sub-processes of the same binary (the scheduler is
// process-global, so parallelism is by process). A worker is the same executable started
// with VERIF_WORKER=<job json>; it prints one line "@@RESULT <json>".
package par

import (
	"bufio"
	"bytes"
	"encoding/json"
	"fmt"
	"os"
	"os/exec"
	"runtime"
	"strings"
	"sync"
)

const marker = "@@RESULT "

// IsWorker reports whether this process was started as a worker.
func IsWorker() bool { return os.Getenv("VERIF_WORKER") != "" }

// Serve decodes the job, runs handler and prints the result. Never returns.
func Serve(handler func(job json.RawMessage) any) {
	job := json.RawMessage(os.Getenv("VERIF_WORKER"))
	res := handler(job)
	b, err := json.Marshal(res)
	if err != nil {
		fmt.Fprintln(os.Stderr, "worker marshal:", err)
		os.Exit(3)
	}
	w := bufio.NewWriter(os.Stdout)
	w.WriteString("\n" + marker)
	w.Write(b)
	w.WriteString("\n")
	w.Flush()
	os.Exit(0)
}

type Out struct {
	Raw    json.RawMessage
	Err    string // process failure (crash, no result line)
	Stderr string
}

func Workers() int {
	n := runtime.NumCPU()
	if v := os.Getenv("VERIF_WORKERS"); v != "" {
		fmt.Sscan(v, &n)
	}
	if n < 1 {
		n = 1
	}
	return n
}

// Map runs every job in its own worker process, at most Workers() at a time.
func Map(jobs []any, extraEnv ...string) []Out {
	outs := make([]Out, len(jobs))
	sem := make(chan struct{}, Workers())
	var wg sync.WaitGroup
	exe, _ := os.Executable()
	for i, j := range jobs {
		wg.Add(1)
		sem <- struct{}{}
		go func(i int, j any) {
			defer wg.Done()
			defer func() { <-sem }()
			b, _ := json.Marshal(j)
			cmd := exec.Command(exe, os.Args[1:]...)
			cmd.Env = append(os.Environ(), "VERIF_WORKER="+string(b), "GOMAXPROCS=2")
			cmd.Env = append(cmd.Env, extraEnv...)
			var so, se bytes.Buffer
			cmd.Stdout, cmd.Stderr = &so, &se
			err := cmd.Run()
			o := Out{Stderr: tail(se.String(), 4000)}
			for _, ln := range strings.Split(so.String(), "\n") {
				if strings.HasPrefix(ln, marker) {
					o.Raw = json.RawMessage(ln[len(marker):])
				}
			}
			if o.Raw == nil {
				o.Err = fmt.Sprintf("worker produced no result (err=%v) stdout=%s", err, tail(so.String(), 2000))
			}
			outs[i] = o
		}(i, j)
	}
	wg.Wait()
	return outs
}

func tail(s string, n int) string {
	if len(s) > n {
		return s[len(s)-n:]
	}
	return s
}

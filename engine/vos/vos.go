// Package vos is the import-rewrite target for "os" in files whose file-system
// operations are enumerated as crash points (E4, property C45).
//
// It re-exports the part of package os that configuration writers use and calls the
// package-level hook BeforeOp(op, path) *before* every mutating file-system operation
// (create/truncate, write, truncate, sync, close, rename, remove, mkdir, chmod, link).
// For writes, BeforeWrite(path, off, data) is called right after BeforeOp("write", path),
// so that a harness can also build the images of a write(2) that was cut short.
//
// FailOp (optional) lets a harness make one of these operations fail without performing it
// (fault injection: disk full, I/O error).
//
// With all hooks nil the package behaves exactly like package os.
package vos

import (
	"io"
	"io/fs"
	"os"
	"time"
)

// BeforeOp is called before every mutating operation with the operation kind and the path
// it is applied to. The directory state observed inside the hook is "after the previous
// operation".
var BeforeOp func(op, path string)

// BeforeWrite is called (after BeforeOp("write"|"write-at"|"write-string", path)) with the
// file offset the data will land at and the data itself.
var BeforeWrite func(path string, off int64, data []byte)

// FailOp, when set, is consulted after BeforeOp/BeforeWrite and before the operation is
// performed, for the operations that can fail for lack of space or an I/O error: "write",
// "write-at", "sync", "ftruncate", "truncate", "open-create", "open-create-trunc",
// "open-trunc", "rename", "remove". A non-nil result is returned to the caller INSTEAD of
// performing the operation (nothing is written); nil = proceed. With FailOp nil (the default)
// nothing changes.
var FailOp func(op, path string) error

func before(op, path string) {
	if BeforeOp != nil {
		BeforeOp(op, path)
	}
}

func fail(op, path string) error {
	if FailOp != nil {
		return FailOp(op, path)
	}
	return nil
}

// ---- types, constants, errors ----

type (
	FileMode   = fs.FileMode
	FileInfo   = fs.FileInfo
	DirEntry   = fs.DirEntry
	PathError  = fs.PathError
	LinkError  = os.LinkError
	SyscallErr = os.SyscallError
	Signal     = os.Signal
	Process    = os.Process
	Root       = os.Root
)

const (
	O_RDONLY = os.O_RDONLY
	O_WRONLY = os.O_WRONLY
	O_RDWR   = os.O_RDWR
	O_APPEND = os.O_APPEND
	O_CREATE = os.O_CREATE
	O_EXCL   = os.O_EXCL
	O_SYNC   = os.O_SYNC
	O_TRUNC  = os.O_TRUNC

	SEEK_SET = os.SEEK_SET
	SEEK_CUR = os.SEEK_CUR
	SEEK_END = os.SEEK_END

	PathSeparator     = os.PathSeparator
	PathListSeparator = os.PathListSeparator
	DevNull           = os.DevNull

	ModeDir        = fs.ModeDir
	ModeAppend     = fs.ModeAppend
	ModeExclusive  = fs.ModeExclusive
	ModeTemporary  = fs.ModeTemporary
	ModeSymlink    = fs.ModeSymlink
	ModeDevice     = fs.ModeDevice
	ModeNamedPipe  = fs.ModeNamedPipe
	ModeSocket     = fs.ModeSocket
	ModeSetuid     = fs.ModeSetuid
	ModeSetgid     = fs.ModeSetgid
	ModeCharDevice = fs.ModeCharDevice
	ModeSticky     = fs.ModeSticky
	ModeIrregular  = fs.ModeIrregular
	ModeType       = fs.ModeType
	ModePerm       = fs.ModePerm
)

var (
	ErrInvalid          = fs.ErrInvalid
	ErrPermission       = fs.ErrPermission
	ErrExist            = fs.ErrExist
	ErrNotExist         = fs.ErrNotExist
	ErrClosed           = fs.ErrClosed
	ErrNoDeadline       = os.ErrNoDeadline
	ErrDeadlineExceeded = os.ErrDeadlineExceeded
	ErrProcessDone      = os.ErrProcessDone

	Stdin  = os.Stdin
	Stdout = os.Stdout
	Stderr = os.Stderr
	Args   = os.Args

	Interrupt = os.Interrupt
	Kill      = os.Kill
)

// ---- pass-through, non-mutating ----

func ReadFile(name string) ([]byte, error)          { return os.ReadFile(name) }
func ReadDir(name string) ([]DirEntry, error)       { return os.ReadDir(name) }
func Stat(name string) (FileInfo, error)            { return os.Stat(name) }
func Lstat(name string) (FileInfo, error)           { return os.Lstat(name) }
func Readlink(name string) (string, error)          { return os.Readlink(name) }
func IsExist(err error) bool                        { return os.IsExist(err) }
func IsNotExist(err error) bool                     { return os.IsNotExist(err) }
func IsPermission(err error) bool                   { return os.IsPermission(err) }
func IsTimeout(err error) bool                      { return os.IsTimeout(err) }
func IsPathSeparator(c uint8) bool                  { return os.IsPathSeparator(c) }
func SameFile(a, b FileInfo) bool                   { return os.SameFile(a, b) }
func Getenv(k string) string                        { return os.Getenv(k) }
func LookupEnv(k string) (string, bool)             { return os.LookupEnv(k) }
func Setenv(k, v string) error                      { return os.Setenv(k, v) }
func Unsetenv(k string) error                       { return os.Unsetenv(k) }
func Environ() []string                             { return os.Environ() }
func ExpandEnv(s string) string                     { return os.ExpandEnv(s) }
func Expand(s string, m func(string) string) string { return os.Expand(s, m) }
func TempDir() string                               { return os.TempDir() }
func UserHomeDir() (string, error)                  { return os.UserHomeDir() }
func UserConfigDir() (string, error)                { return os.UserConfigDir() }
func UserCacheDir() (string, error)                 { return os.UserCacheDir() }
func Getwd() (string, error)                        { return os.Getwd() }
func Hostname() (string, error)                     { return os.Hostname() }
func Executable() (string, error)                   { return os.Executable() }
func Getpid() int                                   { return os.Getpid() }
func Getppid() int                                  { return os.Getppid() }
func Getuid() int                                   { return os.Getuid() }
func Geteuid() int                                  { return os.Geteuid() }
func Getgid() int                                   { return os.Getgid() }
func Getegid() int                                  { return os.Getegid() }
func Getpagesize() int                              { return os.Getpagesize() }
func Exit(code int)                                 { os.Exit(code) }
func DirFS(dir string) fs.FS                        { return os.DirFS(dir) }
func NewSyscallError(s string, err error) error     { return os.NewSyscallError(s, err) }
func FindProcess(pid int) (*Process, error)         { return os.FindProcess(pid) }

// ---- mutating package-level operations ----

func Rename(oldpath, newpath string) error {
	before("rename", oldpath+" -> "+newpath)
	if err := fail("rename", oldpath+" -> "+newpath); err != nil {
		return err
	}
	return os.Rename(oldpath, newpath)
}
func Remove(name string) error {
	before("remove", name)
	if err := fail("remove", name); err != nil {
		return err
	}
	return os.Remove(name)
}
func RemoveAll(path string) error {
	before("remove-all", path)
	return os.RemoveAll(path)
}
func Mkdir(name string, perm FileMode) error { before("mkdir", name); return os.Mkdir(name, perm) }
func MkdirAll(path string, perm FileMode) error {
	before("mkdir-all", path)
	return os.MkdirAll(path, perm)
}
func MkdirTemp(dir, pattern string) (string, error) {
	before("mkdir-temp", dir+"/"+pattern)
	return os.MkdirTemp(dir, pattern)
}
func Chmod(name string, mode FileMode) error { before("chmod", name); return os.Chmod(name, mode) }
func Chown(name string, uid, gid int) error  { before("chown", name); return os.Chown(name, uid, gid) }
func Lchown(name string, uid, gid int) error { before("chown", name); return os.Lchown(name, uid, gid) }
func Chtimes(name string, a, m time.Time) error {
	before("chtimes", name)
	return os.Chtimes(name, a, m)
}
func Truncate(name string, size int64) error {
	before("truncate", name)
	if err := fail("truncate", name); err != nil {
		return err
	}
	return os.Truncate(name, size)
}
func Link(oldname, newname string) error {
	before("link", oldname+" -> "+newname)
	return os.Link(oldname, newname)
}
func Symlink(oldname, newname string) error {
	before("symlink", oldname+" -> "+newname)
	return os.Symlink(oldname, newname)
}

// WriteFile is os.WriteFile decomposed into its operations (open/truncate, write, close) so
// that every boundary is a crash point.
func WriteFile(name string, data []byte, perm FileMode) error {
	f, err := OpenFile(name, O_WRONLY|O_CREATE|O_TRUNC, perm)
	if err != nil {
		return err
	}
	_, err = f.Write(data)
	if err1 := f.Close(); err1 != nil && err == nil {
		err = err1
	}
	return err
}

// ---- File ----

// File wraps *os.File; read-side methods are promoted, mutating methods call the hook.
type File struct {
	*os.File
	flag int
}

func wrap(f *os.File, flag int, err error) (*File, error) {
	if err != nil {
		return nil, err
	}
	return &File{File: f, flag: flag}, nil
}

func Open(name string) (*File, error) {
	f, err := os.Open(name)
	return wrap(f, O_RDONLY, err)
}

func Create(name string) (*File, error) {
	return OpenFile(name, O_RDWR|O_CREATE|O_TRUNC, 0o666)
}

func OpenFile(name string, flag int, perm FileMode) (*File, error) {
	op := ""
	switch {
	case flag&O_TRUNC != 0 && flag&O_CREATE != 0:
		op = "open-create-trunc"
	case flag&O_TRUNC != 0:
		op = "open-trunc"
	case flag&O_CREATE != 0:
		op = "open-create"
	}
	if op != "" {
		before(op, name)
		if err := fail(op, name); err != nil {
			return nil, err
		}
	}
	f, err := os.OpenFile(name, flag, perm)
	return wrap(f, flag, err)
}

func CreateTemp(dir, pattern string) (*File, error) {
	if dir == "" {
		dir = os.TempDir()
	}
	before("create-temp", dir+"/"+pattern)
	f, err := os.CreateTemp(dir, pattern)
	return wrap(f, O_RDWR|O_CREATE|O_EXCL, err)
}

func NewFile(fd uintptr, name string) *File {
	f := os.NewFile(fd, name)
	if f == nil {
		return nil
	}
	return &File{File: f}
}

func (f *File) writeOffset() int64 {
	if f.flag&O_APPEND != 0 {
		if st, err := f.File.Stat(); err == nil {
			return st.Size()
		}
		return 0
	}
	off, err := f.File.Seek(0, io.SeekCurrent)
	if err != nil {
		return 0
	}
	return off
}

func (f *File) Write(b []byte) (int, error) {
	before("write", f.File.Name())
	if bw := BeforeWrite; bw != nil { // local copy: a harness may clear the hook while code under test still writes
		bw(f.File.Name(), f.writeOffset(), b)
	}
	if err := fail("write", f.File.Name()); err != nil {
		return 0, err
	}
	return f.File.Write(b)
}

func (f *File) WriteString(s string) (int, error) { return f.Write([]byte(s)) }

func (f *File) WriteAt(b []byte, off int64) (int, error) {
	before("write-at", f.File.Name())
	if bw := BeforeWrite; bw != nil {
		bw(f.File.Name(), off, b)
	}
	if err := fail("write-at", f.File.Name()); err != nil {
		return 0, err
	}
	return f.File.WriteAt(b, off)
}

// ReadFrom must not be promoted from *os.File (it would bypass Write).
func (f *File) ReadFrom(r io.Reader) (int64, error) {
	return io.Copy(struct{ io.Writer }{f}, r)
}

func (f *File) Truncate(size int64) error {
	before("ftruncate", f.File.Name())
	if err := fail("ftruncate", f.File.Name()); err != nil {
		return err
	}
	return f.File.Truncate(size)
}

func (f *File) Sync() error {
	before("sync", f.File.Name())
	if err := fail("sync", f.File.Name()); err != nil {
		return err
	}
	return f.File.Sync()
}

func (f *File) Close() error {
	if f == nil || f.File == nil {
		return os.ErrInvalid
	}
	if f.flag&(O_WRONLY|O_RDWR) != 0 {
		before("close", f.File.Name())
	}
	return f.File.Close()
}

func (f *File) Chmod(mode FileMode) error {
	before("fchmod", f.File.Name())
	return f.File.Chmod(mode)
}

func (f *File) Chown(uid, gid int) error {
	before("fchown", f.File.Name())
	return f.File.Chown(uid, gid)
}

// Package explore is the iterative-context-bounding DFS over schedules produced by vsched.
// Each node of the search tree is one complete execution: replay a prefix of choices,
// then choice 0 (keep running the current thread) at every later point. Children of a
// node deviate at one later point. Switching away from a still-enabled thread costs one
// preemption; the bound limits the preemptions of an execution.
package explore

import (
	"fmt"
	"sort"
	"time"

	"verif/engine/vsched"
)

// Exec is what a harness returns for one execution.
type Exec struct {
	Res       *vsched.Result
	Outcome   string // canonical observable outcome (for distinct-outcome counting)
	Violation string // non-empty: property violated in this execution
}

type Config struct {
	Bound      int // max preemptions; <0 = unbounded
	TotalBound int // max deviations of either kind together (delay bounding); 0 = unlimited
	FreeBound  int // max non-default choices at points where the running thread is NOT enabled (delay bounding); 0 = unlimited
	MaxExec    int // 0 = no cap
	Deadline   time.Time
	Shard      int // this shard
	NShards    int // 0/1 = no sharding
}

type Stats struct {
	Executions  int            `json:"executions"`
	Transitions int            `json:"transitions"` // scheduler steps summed over executions
	MaxPoints   int            `json:"max_points"`
	Outcomes    map[string]int `json:"outcomes"`
	Capped      bool           `json:"capped"`
	Bound       int            `json:"bound"`
	Violation   string         `json:"violation,omitempty"`
	Choices     []int          `json:"choices,omitempty"` // of the violating execution
	Sample      []int          `json:"sample,omitempty"`  // choices of one deepest execution
	Internal    string         `json:"internal,omitempty"`
}

func (s *Stats) Merge(o *Stats) {
	s.Executions += o.Executions
	s.Transitions += o.Transitions
	if o.MaxPoints > s.MaxPoints {
		s.MaxPoints = o.MaxPoints
		s.Sample = o.Sample
	}
	if s.Outcomes == nil {
		s.Outcomes = map[string]int{}
	}
	for k, v := range o.Outcomes {
		s.Outcomes[k] += v
	}
	s.Capped = s.Capped || o.Capped
	if s.Violation == "" && o.Violation != "" {
		s.Violation, s.Choices = o.Violation, o.Choices
	}
	if s.Internal == "" {
		s.Internal = o.Internal
	}
}

func (s *Stats) OutcomeKeys() []string {
	k := make([]string, 0, len(s.Outcomes))
	for o := range s.Outcomes {
		k = append(k, o)
	}
	sort.Strings(k)
	return k
}

type node struct {
	prefix []int
}

// Explore runs the search. run must build fresh state, execute under vsched with the
// given prefix and judge the execution. It stops at the first violation.
func Explore(cfg Config, run func(prefix []int) *Exec) *Stats {
	st := &Stats{Outcomes: map[string]int{}, Bound: cfg.Bound}
	stack := []node{{prefix: nil}}
	root := true
	for len(stack) > 0 {
		nd := stack[len(stack)-1]
		stack = stack[:len(stack)-1]
		isRoot := root
		root = false
		if cfg.MaxExec > 0 && st.Executions >= cfg.MaxExec || (!cfg.Deadline.IsZero() && time.Now().After(cfg.Deadline)) {
			st.Capped = true
			return st
		}
		x := run(nd.prefix)
		r := x.Res
		if r.Diverged != "" || r.AbortStuck {
			st.Internal = fmt.Sprintf("replay diverged or teardown stuck (prefix %v): %s stuck=%v", nd.prefix, r.Diverged, r.AbortStuck)
			return st
		}
		// the prefix must have been followed exactly
		for i, c := range nd.prefix {
			if i >= len(r.Points) || r.Points[i].Chosen != c {
				st.Internal = fmt.Sprintf("replay did not follow prefix %v (points %d)", nd.prefix, len(r.Points))
				return st
			}
		}
		counted := !isRoot || cfg.NShards <= 1 || cfg.Shard == 0
		if counted {
			st.Executions++
			st.Transitions += r.Steps
			st.Outcomes[x.Outcome]++
			if len(r.Points) >= st.MaxPoints {
				st.MaxPoints = len(r.Points)
				st.Sample = r.Choices()
			}
			if x.Violation != "" {
				st.Violation = x.Violation
				st.Choices = r.Choices()
				return st
			}
		}
		// children
		cost, free := 0, 0
		for i := 0; i < len(nd.prefix); i++ {
			if r.Points[i].Chosen != 0 {
				if r.Points[i].RunningEnabled {
					cost++
				} else {
					free++
				}
			}
		}
		var kids []node
		for i := len(nd.prefix); i < len(r.Points); i++ {
			p := r.Points[i]
			c := cost
			if p.RunningEnabled {
				c++
			}
			if cfg.Bound >= 0 && c > cfg.Bound {
				continue
			}
			if !p.RunningEnabled && cfg.FreeBound > 0 && free+1 > cfg.FreeBound {
				continue
			}
			if cfg.TotalBound > 0 && cost+free+1 > cfg.TotalBound {
				continue
			}
			for alt := 1; alt < len(p.Enabled); alt++ {
				pre := make([]int, i+1)
				copy(pre, r.Choices()[:i])
				pre[i] = alt
				kids = append(kids, node{prefix: pre})
			}
			// points after i with chosen 0 do not add cost
		}
		if isRoot && cfg.NShards > 1 {
			var mine []node
			for k, kd := range kids {
				if k%cfg.NShards == cfg.Shard {
					mine = append(mine, kd)
				}
			}
			kids = mine
		}
		// push in reverse so earlier deviations are explored first
		for k := len(kids) - 1; k >= 0; k-- {
			stack = append(stack, kids[k])
		}
	}
	return st
}

// Package vsched is a cooperative scheduler for real goroutines: exactly one
// registered thread runs at a time, control changes hands only at Point/Block/
// SleepYield/exit, and every hand-off is a recorded choice that an explorer can
// replay and vary. While no execution is active every entry point is a no-op, so
// instrumented code also runs free (sequential harnesses, setup and oracle phases).
package vsched

import (
	"fmt"
	"runtime"
	"runtime/debug"
	"sort"
	"strings"
	"sync/atomic"
	"time"
)

const (
	stRunnable = iota
	stBlocked
	stSleeping
	stDone
)

type abortT struct{}

// Thread is one scheduled goroutine.
type Thread struct {
	ID     int
	Name   string
	Daemon bool
	resume chan struct{}
	status int
	pred   func() bool // enabledness predicate while blocked
	why    string      // label of the last point / block reason
	steps  int
	woken  bool // for sleeping threads: some other thread stepped since
	atomic int  // >0: Points are suppressed (function executed as one step)
	limit  int  // per-thread call horizon (0 = Options.ThreadSteps)
	calls  int  // Point calls (counted even inside atomic regions: recursion horizon)
}

// SetCallLimit gives the running thread its own horizon (Point calls since the last
// ResetCalls); 0 restores the default (Options.ThreadSteps).
func SetCallLimit(n int) {
	if Active() && s.cur != nil {
		s.cur.limit = n
	}
}

// ResetCalls restarts the running thread's Point-call counter (per-operation horizons).
func ResetCalls() {
	if Active() && s.cur != nil {
		s.cur.calls = 0
	}
}

// Why returns the label at which thread id last parked ("" if unknown).
func Why(id int) string {
	if !Active() || id < 0 || id >= len(s.threads) {
		return ""
	}
	return s.threads[id].why
}

// AtomicEnter / AtomicLeave bracket a region executed as a single scheduler step: Points
// inside are no-ops (blocking operations still hand over control when they must wait).
func AtomicEnter() {
	if Active() && s.cur != nil {
		s.cur.atomic++
	}
}

// AtomicLevel selects the granularity: regions declared with level <= AtomicLevel run as
// one step. Level 0 regions are always atomic; harnesses lower AtomicLevel for finer
// (thorough) exploration.
var AtomicLevel = 1

// AtomicRegion is what the instrumenter inserts: `defer vsched.AtomicRegion(l)()`.
func AtomicRegion(level int) func() {
	if !Active() || level > AtomicLevel {
		return func() {}
	}
	AtomicEnter()
	return AtomicLeave
}

func AtomicLeave() {
	if Active() && s.cur != nil && s.cur.atomic > 0 {
		s.cur.atomic--
	}
}

// ChoicePoint is one scheduling decision with more than one enabled thread.
type ChoicePoint struct {
	Enabled        []int // thread ids, canonical order
	Chosen         int   // index into Enabled
	RunningEnabled bool  // the previously running thread is Enabled[0]
	Label          string
}

// Result describes one complete execution.
type Result struct {
	Points     []ChoicePoint
	Steps      int
	Deadlock   string // non-empty: description of blocked threads
	Panic      string // non-empty: first panic in a thread (with stack)
	PanicVal   string
	Horizon    string // non-empty: step horizon exceeded
	HorizonAt  string
	Diverged   string // replay prefix could not be followed
	Log        []string
	AbortStuck bool
}

func (r *Result) Choices() []int {
	c := make([]int, len(r.Points))
	for i, p := range r.Points {
		c[i] = p.Chosen
	}
	return c
}

// Failed reports whether the execution ended abnormally (any of the generic failures).
func (r *Result) Failed() string {
	switch {
	case r.Diverged != "":
		return "diverged: " + r.Diverged
	case r.Panic != "":
		return "panic: " + r.PanicVal
	case r.Deadlock != "":
		return "deadlock: " + r.Deadlock
	case r.Horizon != "":
		return "horizon: " + r.Horizon
	}
	return ""
}

type Options struct {
	Prefix       []int // choices to replay; afterwards choice 0
	MaxSteps     int   // global step horizon (default 200000)
	ThreadSteps  int   // per-thread step horizon (default = MaxSteps)
	KeepLog      bool
	LogLimit     int
	StuckTimeout time.Duration
}

type sched struct {
	threads   []*Thread
	cur       *Thread
	parked    chan struct{}
	aborting  bool
	opts      Options
	res       *Result
	nextPt    int
	epoch     uint64
	timers    []*Timer
	idleWakes int
	now       int64 // logical nanoseconds
}

var (
	active atomic.Bool
	s      *sched
	epoch  uint64
)

// Active reports whether a controlled execution is in progress.
func Active() bool { return active.Load() }

// Epoch identifies the current execution (shims tag logical lock state with it).
func Epoch() uint64 { return epoch }

// Aborting reports whether the current execution is being torn down.
func Aborting() bool { return s != nil && s.aborting }

// Cur returns the running thread (nil when inactive).
func Cur() *Thread {
	if !Active() {
		return nil
	}
	return s.cur
}

func CurID() int {
	if t := Cur(); t != nil {
		return t.ID
	}
	return -1
}

// Logf appends to the observation log of the running execution.
func Logf(format string, a ...any) {
	if !Active() || !s.opts.KeepLog {
		return
	}
	if s.opts.LogLimit > 0 && len(s.res.Log) >= s.opts.LogLimit {
		return
	}
	id := -1
	if s.cur != nil {
		id = s.cur.ID
	}
	s.res.Log = append(s.res.Log, fmt.Sprintf("T%d ", id)+fmt.Sprintf(format, a...))
}

// Run executes body as thread 0 under the scheduler and returns when all non-daemon
// threads have finished (or the execution failed and was torn down).
func Run(opts Options, body func()) *Result {
	if Active() {
		panic("vsched: nested Run")
	}
	if opts.MaxSteps == 0 {
		opts.MaxSteps = 200000
	}
	if opts.ThreadSteps == 0 {
		opts.ThreadSteps = opts.MaxSteps
	}
	if opts.StuckTimeout == 0 {
		opts.StuckTimeout = 10 * time.Second
	}
	epoch++
	s = &sched{parked: make(chan struct{}), opts: opts, res: &Result{}, epoch: epoch}
	active.Store(true)
	t0 := s.newThread("main", false, body)
	_ = t0
	s.loop()
	active.Store(false)
	r := s.res
	s = nil
	return r
}

func (sc *sched) newThread(name string, daemon bool, f func()) *Thread {
	t := &Thread{ID: len(sc.threads), Name: name, Daemon: daemon, resume: make(chan struct{}), status: stRunnable, why: "start"}
	sc.threads = append(sc.threads, t)
	go func() {
		<-t.resume
		defer func() {
			if r := recover(); r != nil {
				switch v := r.(type) {
				case abortT:
				default:
					_ = v
					if sc.res.Panic == "" && !sc.aborting {
						sc.res.PanicVal = fmt.Sprint(r)
						sc.res.Panic = fmt.Sprintf("thread %d (%s): %v\n%s", t.ID, t.Name, r, trimStack(debug.Stack()))
					}
				}
			}
			t.status = stDone
			sc.parked <- struct{}{}
		}()
		if sc.aborting {
			return
		}
		f()
	}()
	return t
}

func trimStack(b []byte) string {
	lines := strings.Split(string(b), "\n")
	if len(lines) > 60 {
		lines = lines[:60]
	}
	return strings.Join(lines, "\n")
}

// Go spawns a scheduled thread. Inactive: plain goroutine.
func Go(f func()) { GoNamed("", false, f) }

// GoDaemon spawns a thread whose completion is not required for termination.
func GoDaemon(name string, f func()) { GoNamed(name, true, f) }

func GoNamed(name string, daemon bool, f func()) {
	if !Active() {
		go f()
		return
	}
	if s.aborting {
		return
	}
	s.newThread(name, daemon, f)
	Point("spawn")
}

func (sc *sched) enabled(t *Thread) bool {
	switch t.status {
	case stRunnable:
		return true
	case stBlocked:
		return t.pred()
	case stSleeping:
		return t.woken
	}
	return false
}

func (sc *sched) loop() {
	var last *Thread
	for {
		// enabled set in canonical order
		var en []*Thread
		lastEnabled := false
		if last != nil && sc.enabled(last) {
			en = append(en, last)
			lastEnabled = true
		}
		for _, t := range sc.threads {
			if t != last && sc.enabled(t) {
				en = append(en, t)
			}
		}
		if len(en) == 0 {
			// wake sleepers if nothing else can run; if that keeps happening without any
			// thread making progress in between, the waiting is a deadlock (everybody polls)
			for _, t := range sc.threads {
				if t.status == stSleeping {
					t.woken = true
					en = append(en, t)
				}
			}
			if len(en) > 0 {
				sc.idleWakes++
				if sc.idleWakes > 3*len(sc.threads)+3 && !sc.pendingTimer() {
					var b []string
					for _, t := range sc.threads {
						if t.status != stDone {
							b = append(b, fmt.Sprintf("T%d(%s)@%s", t.ID, t.Name, t.why))
						}
					}
					sort.Strings(b)
					sc.res.Deadlock = "only waiting threads remain: " + strings.Join(b, " ")
					sc.abortAll()
					return
				}
				if sc.idleWakes > 3*len(sc.threads)+3 && sc.fireTimer() {
					sc.idleWakes = 0
					continue
				}
			}
		}
		if len(en) == 0 && sc.fireTimer() {
			continue
		}
		allDone := true
		for _, t := range sc.threads {
			if t.status != stDone && !t.Daemon {
				allDone = false
			}
		}
		if allDone {
			// non-daemon work finished; daemons are torn down
			sc.abortAll()
			return
		}
		if len(en) == 0 {
			var b []string
			for _, t := range sc.threads {
				if t.status != stDone {
					b = append(b, fmt.Sprintf("T%d(%s)@%s", t.ID, t.Name, t.why))
				}
			}
			sort.Strings(b)
			sc.res.Deadlock = strings.Join(b, " ")
			sc.abortAll()
			return
		}
		// only daemons enabled while all non-daemons blocked forever => still run daemons
		idx := 0
		if len(en) > 1 {
			k := len(sc.res.Points)
			if k < len(sc.opts.Prefix) {
				idx = sc.opts.Prefix[k]
				if idx >= len(en) {
					sc.res.Diverged = fmt.Sprintf("choice %d of point %d out of range (%d enabled)", idx, k, len(en))
					sc.abortAll()
					return
				}
			}
			ids := make([]int, len(en))
			for i, t := range en {
				ids[i] = t.ID
			}
			sc.res.Points = append(sc.res.Points, ChoicePoint{Enabled: ids, Chosen: idx, RunningEnabled: lastEnabled, Label: en[0].why})
		}
		t := en[idx]
		sc.res.Steps++
		t.steps++
		if sc.res.Steps > sc.opts.MaxSteps {
			sc.res.Horizon = fmt.Sprintf("global step horizon %d exceeded (last T%d@%s)", sc.opts.MaxSteps, t.ID, t.why)
			sc.abortAll()
			return
		}
		for _, u := range sc.threads {
			if u != t && u.status == stSleeping {
				u.woken = true
			}
		}
		if sc.opts.KeepLog && (sc.opts.LogLimit == 0 || len(sc.res.Log) < sc.opts.LogLimit) {
			sc.res.Log = append(sc.res.Log, fmt.Sprintf("run T%d(%s) from %s", t.ID, t.Name, t.why))
		}
		t.status = stRunnable
		t.pred = nil
		sc.cur = t
		last = t
		t.resume <- struct{}{}
		<-sc.parked
		if t.status == stDone || t.status == stBlocked {
			sc.idleWakes = 0
		}
		if sc.res.Panic != "" || sc.res.Horizon != "" {
			sc.abortAll()
			return
		}
	}
}

func (sc *sched) abortAll() {
	sc.aborting = true
	for _, t := range sc.threads {
		if t.status == stDone {
			continue
		}
		sc.cur = t
		t.resume <- struct{}{}
		select {
		case <-sc.parked:
		case <-time.After(sc.opts.StuckTimeout):
			sc.res.AbortStuck = true
			return
		}
	}
}

// park hands control to the controller and waits to be resumed.
func (sc *sched) park(t *Thread) {
	sc.parked <- struct{}{}
	<-t.resume
	if sc.aborting {
		panic(abortT{})
	}
}

// Point is a scheduling point: any enabled thread may run next.
func Point(label string) {
	if !Active() {
		return
	}
	sc := s
	if sc.aborting {
		return
	}
	t := sc.cur
	t.calls++
	lim := sc.opts.ThreadSteps
	if t.limit > 0 {
		lim = t.limit
	}
	if t.atomic > 0 && t.calls <= lim {
		return
	}
	t.why = label
	if t.calls > lim {
		sc.res.Horizon = fmt.Sprintf("thread %d (%s) exceeded %d steps", t.ID, t.Name, lim)
		sc.res.HorizonAt = label
		if sc.opts.KeepLog {
			st := debug.Stack()
			if len(st) > 6000 {
				st = st[:6000]
			}
			sc.res.Log = append(sc.res.Log, "horizon stack:\n"+string(st))
		}
		sc.aborting = true
		panic(abortT{})
	}
	t.status = stRunnable
	sc.idleWakes = 0
	sc.park(t)
}

// Block disables the running thread until pred() holds. pred must be side-effect free.
// The caller re-checks its condition after Block returns.
func Block(label string, pred func() bool) {
	if !Active() {
		panic("vsched.Block while inactive: " + label)
	}
	sc := s
	if sc.aborting {
		panic(abortT{})
	}
	t := sc.cur
	t.why = label
	t.status = stBlocked
	t.pred = pred
	sc.park(t)
}

// SleepYield disables the running thread until some other thread has stepped (or
// nothing else can run). Used for spin / retry waits so loops cannot unroll forever.
func SleepYield(label string) {
	if !Active() {
		return
	}
	sc := s
	if sc.aborting {
		return
	}
	t := sc.cur
	t.why = label
	if t.steps > sc.opts.ThreadSteps {
		sc.res.Horizon = fmt.Sprintf("thread %d (%s) exceeded %d steps at %s", t.ID, t.Name, sc.opts.ThreadSteps, label)
		sc.aborting = true
		panic(abortT{})
	}
	t.status = stSleeping
	t.woken = false
	sc.park(t)
}

// ---- logical time -------------------------------------------------------------------

// Timer is a logical timer: it fires (fn runs as a new scheduled thread) when no thread
// can run, in due order, advancing the logical clock to its due time.
type Timer struct {
	due     int64
	fn      func()
	stopped bool
	fired   bool
	seq     int
}

func Now() int64 {
	if !Active() {
		return 0
	}
	return s.now
}

func AfterFunc(d int64, fn func()) *Timer {
	if !Active() {
		panic("vsched.AfterFunc while inactive")
	}
	t := &Timer{due: s.now + d, fn: fn, seq: len(s.timers)}
	s.timers = append(s.timers, t)
	return t
}

func (t *Timer) Stop() bool {
	was := !t.stopped && !t.fired
	t.stopped = true
	return was
}

func (sc *sched) fireTimer() bool {
	var best *Timer
	for _, t := range sc.timers {
		if t.stopped || t.fired {
			continue
		}
		if best == nil || t.due < best.due || (t.due == best.due && t.seq < best.seq) {
			best = t
		}
	}
	if best == nil {
		return false
	}
	if best.due > sc.now {
		sc.now = best.due
	}
	best.fired = true
	sc.newThread("timer", false, best.fn) // the callback runs as a scheduled thread
	return true
}

func (sc *sched) pendingTimer() bool {
	for _, t := range sc.timers {
		if !t.stopped && !t.fired {
			return true
		}
	}
	return false
}

// ---- channels ------------------------------------------------------------------------
// Channel operations in instrumented code are try-operations in a loop: if the operation
// cannot proceed the thread is disabled until some other thread has stepped, then tries
// again. This supports buffered and close-only channels (a receive from a closed or
// non-empty channel, a send into a non-full buffer). Unbuffered rendezvous between two
// instrumented threads is not supported (neither side ever commits).

// Recv is `<-ch`.
func Recv[T any](ch <-chan T) T {
	v, _ := Recv2(ch)
	return v
}

// Recv2 is `v, ok := <-ch`.
func Recv2[T any](ch <-chan T) (T, bool) {
	if !Active() {
		v, ok := <-ch
		return v, ok
	}
	Point("chan.recv")
	for {
		select {
		case v, ok := <-ch:
			return v, ok
		default:
		}
		if Aborting() {
			panic(abortT{})
		}
		SleepYield("chan.recv(wait)")
	}
}

// Send is `ch <- v`.
func Send[T any](ch chan<- T, v T) {
	if !Active() {
		ch <- v
		return
	}
	Point("chan.send")
	for {
		select {
		case ch <- v:
			return
		default:
		}
		if Aborting() {
			panic(abortT{})
		}
		SleepYield("chan.send(wait)")
	}
}

// SelectYield is the default case the instrumenter adds to a blocking select.
func SelectYield() {
	if !Active() {
		runtime.Gosched()
		time.Sleep(20 * time.Microsecond)
		return
	}
	if Aborting() {
		panic(abortT{})
	}
	SleepYield("select(wait)")
}

// Package vclock is the import-rewrite target for "time" in files explored under the
// scheduler (util/bufconn): Now/Until/Since follow the scheduler's logical clock while an
// execution is active, AfterFunc creates logical timers whose callbacks run as scheduled
// threads when nothing else can run. Inactive: real time.
package vclock

import (
	"time"

	"verif/engine/vsched"
)

type (
	Duration = time.Duration
	Time     = time.Time
)

const (
	Nanosecond  = time.Nanosecond
	Microsecond = time.Microsecond
	Millisecond = time.Millisecond
	Second      = time.Second
	Minute      = time.Minute
	Hour        = time.Hour
)

var epoch = time.Date(2030, 1, 1, 0, 0, 0, 0, time.UTC)

func Now() time.Time {
	if vsched.Active() {
		return epoch.Add(time.Duration(vsched.Now()))
	}
	return time.Now()
}

func Until(t time.Time) time.Duration { return t.Sub(Now()) }
func Since(t time.Time) time.Duration { return Now().Sub(t) }
func Unix(s, n int64) time.Time       { return time.Unix(s, n) }

// Timer mirrors *time.Timer for AfterFunc timers.
type Timer struct {
	real *time.Timer
	lt   *vsched.Timer
}

func AfterFunc(d time.Duration, f func()) *Timer {
	if !vsched.Active() {
		return &Timer{real: time.AfterFunc(d, f)}
	}
	if d < 0 {
		d = 0
	}
	return &Timer{lt: vsched.AfterFunc(int64(d), f)}
}

func (t *Timer) Stop() bool {
	if t.lt != nil {
		if !vsched.Active() {
			return false
		}
		return t.lt.Stop()
	}
	return t.real.Stop()
}

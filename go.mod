module verif

go 1.26.1

require (
	github.com/anishathalye/porcupine v1.3.0
	github.com/avast/retry-go/v4 v4.7.0
	github.com/go-chi/chi/v5 v5.2.5
	github.com/mholt/acmez/v3 v3.1.6
	github.com/miekg/dns v1.1.72
	github.com/ncruces/go-sqlite3 v0.30.5
	github.com/quic-go/quic-go v0.59.0
	github.com/stretchr/testify v1.11.1
	github.com/twitchtv/twirp v8.1.3+incompatible
	github.com/zhangyunhao116/skipmap v0.10.1
	go.miragespace.co/specter v0.0.0
	go.uber.org/zap v1.27.1
	golang.org/x/net v0.51.0
	google.golang.org/protobuf v1.36.11
)

require (
	github.com/TheZeroSlave/zapsentry v1.23.0 // indirect
	github.com/Yiling-J/theine-go v0.6.3-0.20250918135241-1be01cecc132 // indirect
	github.com/alecthomas/units v0.0.0-20240927000941-0f3dac36c52b // indirect
	github.com/caddyserver/certmagic v0.25.2 // indirect
	github.com/caddyserver/zerossl v0.1.5 // indirect
	github.com/cpuguy83/go-md2man/v2 v2.0.7 // indirect
	github.com/davecgh/go-spew v1.1.1 // indirect
	github.com/dominikbraun/graph v0.23.0 // indirect
	github.com/fatih/color v1.18.0 // indirect
	github.com/getsentry/sentry-go v0.43.0 // indirect
	github.com/go-chi/httprate v0.15.0 // indirect
	github.com/jedib0t/go-pretty/v6 v6.7.8 // indirect
	github.com/klauspost/cpuid/v2 v2.3.0 // indirect
	github.com/libdns/libdns v1.1.1 // indirect
	github.com/libp2p/go-buffer-pool v0.1.0 // indirect
	github.com/libp2p/go-yamux/v4 v4.0.2 // indirect
	github.com/mattn/go-colorable v0.1.13 // indirect
	github.com/mattn/go-isatty v0.0.20 // indirect
	github.com/mattn/go-runewidth v0.0.16 // indirect
	github.com/montanaflynn/stats v0.7.1 // indirect
	github.com/ncruces/julianday v1.0.0 // indirect
	github.com/planetscale/vtprotobuf v0.6.0 // indirect
	github.com/pmezard/go-difflib v1.0.0 // indirect
	github.com/quic-go/qpack v0.6.0 // indirect
	github.com/rivo/uniseg v0.4.7 // indirect
	github.com/russross/blackfriday/v2 v2.1.0 // indirect
	github.com/sethvargo/go-diceware v0.5.0 // indirect
	github.com/stretchr/objx v0.5.2 // indirect
	github.com/tetratelabs/wazero v1.11.0 // indirect
	github.com/tidwall/gjson v1.18.0 // indirect
	github.com/tidwall/match v1.1.1 // indirect
	github.com/tidwall/pretty v1.2.1 // indirect
	github.com/tidwall/tinylru v1.2.1 // indirect
	github.com/tidwall/wal v1.2.1 // indirect
	github.com/urfave/cli/v2 v2.27.7 // indirect
	github.com/xrash/smetrics v0.0.0-20240521201337-686a1a2994c1 // indirect
	github.com/zeebo/blake3 v0.2.4 // indirect
	github.com/zeebo/xxh3 v1.1.0 // indirect
	github.com/zhangyunhao116/fastrand v0.5.0 // indirect
	github.com/zhangyunhao116/skipset v0.13.0 // indirect
	go.uber.org/atomic v1.11.0 // indirect
	go.uber.org/multierr v1.11.0 // indirect
	go.uber.org/zap/exp v0.3.0 // indirect
	golang.org/x/crypto v0.48.0 // indirect
	golang.org/x/sync v0.19.0 // indirect
	golang.org/x/sys v0.41.0 // indirect
	golang.org/x/term v0.40.0 // indirect
	golang.org/x/text v0.34.0 // indirect
	gopkg.in/yaml.v3 v3.0.1 // indirect
	moul.io/zapfilter v1.7.0 // indirect
)

replace go.miragespace.co/specter => /repo

replace github.com/avast/retry-go/v4 => ./.third_party/retry-go

replace github.com/tidwall/wal => ./.third_party/wal

replace github.com/ncruces/go-sqlite3 => ./.third_party/go-sqlite3

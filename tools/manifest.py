#!/usr/bin/env python3
"""Regenerates /verif/MANIFEST.json from /verif/checks.json (one entry per claimed property)
and properties.jsonl (everything not claimed is listed under not_applicable with its reason
from checks.json["_not_applicable"] or a work-in-progress note)."""
import json, sys, os
os.chdir('/verif')
import glob
checks = {}
for f in sorted(glob.glob('checks.d/C*.json')):
    checks[os.path.basename(f)[:-5]] = json.load(open(f))
if os.path.exists('checks.d/_meta.json'):
    checks.update(json.load(open('checks.d/_meta.json')))
props = [json.loads(l) for l in open('properties.jsonl')]
na_reasons = checks.get('_not_applicable', {})
ready = set(json.load(open('checks.d/_ready.json')))
out = {
    "version": 1,
    "setup_cmd": "./vcheck --setup",
    "hooks": {
        "guard": "verif",
        "enable": "go build -tags verif -overlay <generated overlay.json> (overlay produced by cmd/verifinst from /repo's current files; see DESIGN.md §2)",
        "baseline_off_cmd": checks.get('_baseline_off_cmd', "cd /repo && GOFLAGS=-mod=mod GOPROXY=off GOTOOLCHAIN=local go1.26.8 test -json -vet=off -count=1 -timeout 25m ./..."),
        "source_commits": checks.get('_hook_commits', []),
        "add_only": True,
    },
    "engines": [
        {"name": "E1-enum", "path": "harness/*/c*.go (per-property enumerators) + engine/report", "kind_free_text": "bounded-exhaustive enumeration of inputs / operation sequences on the real functions against a reference model"},
        {"name": "E2-sched", "path": "engine/vsched engine/vsync engine/vclock engine/explore engine/e2 engine/par cmd/verifinst", "kind_free_text": "cooperative scheduler over real goroutines + iterative-context-bounding / delay-bounded DFS (stateless model checking of the implementation); source instrumented through go build -overlay"},
        {"name": "E3-xstate", "path": "harness/chord/c08.go harness/chord/c02.go harness/chordlib harness/overlay harness/tunsrv/c26.go harness/kvseq/c19.go", "kind_free_text": "explicit-state search over event histories replayed on fresh real objects (canonical-state de-duplication), and the C41 protocol model with table extraction + trace replay on real QUIC transports"},
        {"name": "E4-crash", "path": "engine/vos harness/kvcrash harness/client/c45.go tools/third_party.sh", "kind_free_text": "crash-image enumeration before every mutating file-system / VFS operation + byte-level torn-tail enumeration, recovery by the real code"},
        {"name": "E5-fault", "path": "harness/chordlib/net.go harness/chord/c07.go", "kind_free_text": "exhaustive fault placement (fail before delivery / lose response, error kind) over numbered inter-node calls"},
    ],
    "checks": [],
    "not_applicable": [],
    "notes": "All checks: ./vcheck <ID> <tier>; replay: ./vcheck <ID> replay <file>. Known findings: KNOWN_FINDINGS.txt. See DESIGN.md.",
}
for e in out["engines"]:
    e["serves_properties"] = sorted(k for k, v in checks.items() if not k.startswith('_') and v.get('engine', '').startswith(e["name"].split('-')[0]))
for p in props:
    i = p['id']
    c = checks.get(i)
    if not c or c.get('disabled') or i not in ready:
        out["not_applicable"].append({"property_id": i, "reason": na_reasons.get(i, "check not built yet in this session (work in progress; design in DESIGN.md)")})
        continue
    out["checks"].append({
        "property_id": i,
        "quick_cmd": f"./vcheck {i} quick",
        "thorough_cmd": f"./vcheck {i} thorough",
        "evidence_file": f"/verif/evidence/{i}.json",
        "replay_cmd_template": f"./vcheck {i} replay {{path}}",
        "engine": c.get('engine', 'E1'),
        "level_claimed": {"category": c.get('level', 'model_checking'), "text": c['text'], "design_ref": c.get('design_ref', 'DESIGN.md')},
        "level_note": c['note'],
        "technique": c['technique'],
    })
json.dump(out, open('MANIFEST.json', 'w'), indent=1)
print("checks:", len(out["checks"]), "not_applicable:", len(out["not_applicable"]))

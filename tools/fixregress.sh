#!/bin/bash
# tools/fixregress.sh: for every "fixed:" entry, take a scratch worktree of /repo's HEAD, reverse the fix
# commit(s), run the property's quick check against that tree (VERIF_REPO) and expect a VIOLATION:
# a repaired defect must be reported again if it ever returns. Writes /verif/FIX_REGRESSION.md.
cd /verif
OUT=/verif/FIX_REGRESSION.md
[ -f $OUT ] || printf '# Reverting each fix makes its check fail again\n\n| property | fix commit(s) reverted | check exit | VIOLATION lines |\n|---|---|---|---|\n' > $OUT
run() { # prop commits...
  local P=$1; shift
  local WT=/tmp/seedv/fix_$P_$$_$RANDOM
  git -C /repo worktree add -q --detach $WT HEAD || return
  local ok=1
  for c in "$@"; do
    (cd $WT && git show $c | git apply -R) || ok=0
  done
  if [ $ok = 1 ]; then
    VERIF_REPO=$WT VERIF_ALT_OUT=/tmp/seedv/fixout_$P timeout 1800 ./vcheck $P quick > /tmp/seedv/fix_$P.log 2>&1; rc=$?
    n=$(grep -c '^VIOLATION' /tmp/seedv/fix_$P.log)
    echo "| $P | $* | $rc | $n |" >> $OUT
    echo "$P $* exit=$rc violations=$n"
  else
    echo "| $P | $* | (reverse patch did not apply) | - |" >> $OUT
    echo "$P $* REVERSE FAILED"
  fi
  git -C /repo worktree remove --force $WT
}
"$@"

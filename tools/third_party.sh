#!/bin/bash
# Regenerates /verif/.third_party (git-ignored) offline from the module cache: version-pinned
# copies of third-party modules with small machinery-side hooks. `go build -overlay` refuses
# files under GOMODCACHE, hence copies + `replace` in /verif/go.mod. Fails loudly if an
# anchor text is missing.
set -e
cd /verif
MC=$(GOFLAGS=-mod=mod go1.26.8 env GOMODCACHE)
TP=/verif/.third_party
stamp="$TP/.stamp-v3"
[ -f "$stamp" ] && exit 0
rm -rf "$TP"; mkdir -p "$TP"
cp -r "$MC/github.com/avast/retry-go/v4@v4.7.0" "$TP/retry-go"
cp -r "$MC/github.com/tidwall/wal@v1.2.1" "$TP/wal"
chmod -R u+w "$TP"
python3 - <<'PY'
import sys
def patch(path, old, new):
    s = open(path).read()
    if old not in s:
        sys.exit(f"third_party: anchor not found in {path}: {old!r}")
    open(path, 'w').write(s.replace(old, new, 1))
patch('/verif/.third_party/retry-go/retry.go',
 'func (t *timerImpl) After(d time.Duration) <-chan time.Time {\n\treturn time.After(d)\n}',
 '''// VerifAfter, when set by a verification harness, replaces the real retry wait.
var VerifAfter func(d time.Duration) <-chan time.Time

func (t *timerImpl) After(d time.Duration) <-chan time.Time {
	if VerifAfter != nil {
		return VerifAfter(d)
	}
	return time.After(d)
}''')
PY
python3 - <<'PY'
import sys
def patch(path, old, new):
    s = open(path).read()
    if s.count(old) != 1:
        sys.exit(f"third_party: anchor not found exactly once in {path}: {old!r}")
    open(path, 'w').write(s.replace(old, new, 1))
# tidwall/wal: every mutating file-system operation goes through verif/engine/vos, which calls
# vos.BeforeOp / vos.BeforeWrite (crash-image hooks) and is otherwise the os package
patch('/verif/.third_party/wal/wal.go', '\t"os"\n', '\tos "verif/engine/vos"\n')
PY
touch "$stamp"
echo "third_party ready"

#!/bin/bash
# Regenerates /verif/.third_party (git-ignored) offline from the module cache: version-pinned
# copies of third-party modules with small machinery-side hooks. `go build -overlay` refuses
# files under GOMODCACHE, hence copies + `replace` in /verif/go.mod. Fails loudly if an
# anchor text is missing.
set -e
cd /verif
MC=$(GOFLAGS=-mod=mod go1.26.8 env GOMODCACHE)
TP=/verif/.third_party
stamp="$TP/.stamp-v4"
[ -f "$stamp" ] && exit 0
rm -rf "$TP"; mkdir -p "$TP"
cp -r "$MC/github.com/avast/retry-go/v4@v4.7.0" "$TP/retry-go"
cp -r "$MC/github.com/tidwall/wal@v1.2.1" "$TP/wal"
cp -r "$MC/github.com/ncruces/go-sqlite3@v0.30.5" "$TP/go-sqlite3"
chmod -R u+w "$TP"
python3 - <<'PY'
import sys
def patch(path, old, new):
    s = open(path).read()
    if old not in s:
        sys.exit(f"third_party: anchor not found in {path}: {old!r}")
    open(path, 'w').write(s.replace(old, new, 1))
patch('/verif/.third_party/retry-go/retry.go',
 'func (t *timerImpl) After(d time.Duration) <-chan time.Time {\n\treturn time.After(d)\n}',
 '''// VerifAfter, when set by a verification harness, replaces the real retry wait.
var VerifAfter func(d time.Duration) <-chan time.Time

func (t *timerImpl) After(d time.Duration) <-chan time.Time {
	if VerifAfter != nil {
		return VerifAfter(d)
	}
	return time.After(d)
}''')
PY
python3 - <<'PY'
import sys
def patch(path, old, new):
    s = open(path).read()
    if s.count(old) != 1:
        sys.exit(f"third_party: anchor not found exactly once in {path}: {old!r}")
    open(path, 'w').write(s.replace(old, new, 1))
# tidwall/wal: every mutating file-system operation goes through verif/engine/vos, which calls
# vos.BeforeOp / vos.BeforeWrite (crash-image hooks) and is otherwise the os package
patch('/verif/.third_party/wal/wal.go', '\t"os"\n', '\tos "verif/engine/vos"\n')
# ncruces/go-sqlite3 default VFS: hook before every mutating operation of database / WAL / journal files
f = '/verif/.third_party/go-sqlite3/vfs/file.go'
patch(f, 'func (f *vfsFile) WriteAt(p []byte, off int64) (n int, err error) {\n',
 'func (f *vfsFile) WriteAt(p []byte, off int64) (n int, err error) {\n\tverifHook("write", f.File.Name(), off, p)\n')
patch(f, 'func (f *vfsFile) Sync(flags SyncFlag) error {\n',
 'func (f *vfsFile) Sync(flags SyncFlag) error {\n\tverifHook("sync", f.File.Name(), 0, nil)\n')
patch(f, 'func (vfsOS) Delete(path string, syncDir bool) error {\n',
 'func (vfsOS) Delete(path string, syncDir bool) error {\n\tverifHook("delete", path, 0, nil)\n')
patch(f, '\t\tf, err = os.OpenFile(name.String(), oflags, 0666)\n',
 '\t\tif isCreate {\n\t\t\tverifHook("open-create", name.String(), 0, nil)\n\t\t}\n\t\tf, err = os.OpenFile(name.String(), oflags, 0666)\n')
open(f, 'a').write('''

// VerifBeforeOp, when set by a verification harness, is called before every mutating
// operation of the default VFS (crash-image hook).
var VerifBeforeOp func(op, path string, off int64, data []byte)

func verifHook(op, path string, off int64, data []byte) {
	if h := VerifBeforeOp; h != nil {
		h(op, path, off, data)
	}
}

// Truncate shadows the promoted (*os.File).Truncate so that it passes the hook.
func (f *vfsFile) Truncate(size int64) error {
	verifHook("truncate", f.File.Name(), size, nil)
	return f.File.Truncate(size)
}
''')
PY
touch "$stamp"
echo "third_party ready"

#!/usr/bin/env python3
"""Generates /verif/SEEDED.md from seeded/*/meta.json."""
import json, glob, os
rows = []
for f in sorted(glob.glob('/verif/seeded/*/meta.json')):
    m = json.load(open(f)); name = f.split('/')[3]
    runs = m.get('check_runs', [])
    first = runs[0]['detected'] if runs else None
    rows.append((name, m.get('property'), (m.get('summary') or '').replace('\n', ' ')[:160], (m.get('needs') or '').replace('\n', ' ')[:140],
                 'yes' if first else 'no (check strengthened, see DESIGN.md §15)', 'yes' if m.get('detected') else 'NO',
                 ', '.join(f"{r['tier']}:{'caught' if r['detected'] else 'missed'}" for r in runs)))
with open('/verif/SEEDED.md', 'w') as o:
    o.write("# Seeded property-breaking changes\n\nEach was written by a sub-agent that saw only the property text, confirmed by tools/seedcheck.sh (applies, builds, existing tests pass with it, demonstration fails with it and passes without), and run against the property's check.\n\n")
    o.write("| seed | property | change | needs | caught at first run | caught now | runs |\n|---|---|---|---|---|---|---|\n")
    for r in rows:
        o.write("| " + " | ".join(str(x) for x in r) + " |\n")
print(len(rows), "seeds;", sum(1 for r in rows if r[5] == 'yes'), "caught")

#!/bin/bash
# tools/seedcheck.sh <seed-dir> <property> [tier]
# 1. confirms a seeded change in a scratch worktree: applies, builds, the listed existing tests pass with it,
#    the demonstration fails with it and passes without it;
# 2. applies it to /repo, runs the property's check, reverts /repo; 3. files it under /verif/seeded/<name>/.
# <seed-dir> contains patch.diff, demo/ (with RUN.txt), meta.json
set -u
SD=$1; P=$2; TIER=${3:-quick}
NAME=${SEED_NAME:-$(basename "$SD")}
source /verif/env.sh; unset GOCACHE
WT=/tmp/seedv/$NAME
rm -rf "$WT"; git -C /repo worktree prune; git -C /repo worktree add -q --detach "$WT" HEAD || exit 2
trap 'git -C /repo worktree remove --force "$WT" 2>/dev/null' EXIT
cd "$WT"
mkdir -p tun/client/ui/build && echo '<html></html>' > tun/client/ui/build/index.html  # untracked dummy: tun/client embeds it
PKGS=$(grep -o '^+++ b/[^ ]*' "$SD/patch.diff" | sed 's|+++ b/||; s|/[^/]*$||' | sort -u | sed 's|^|./|; s|$|/...|' | tr '\n' ' ')
echo "== packages touched: $PKGS"
# demo without patch
for f in "$SD"/demo/*_test.go; do [ -f "$f" ] || continue; d=$(grep -h -o 'cp [^ ]* [^ ]*' "$SD/demo/RUN.txt" | grep "$(basename $f)" | head -1 | awk '{print $3}'); done
echo "== RUN.txt:"; cat "$SD/demo/RUN.txt"
if [ -z "${SEED_DEMO_CMD:-}" ]; then
  SEED_DEMO_CP=$(grep -E '^(cp|mkdir) ' "$SD/demo/RUN.txt" | sed "s#<OUT>#$(dirname $SD)#g" | tr '\n' ';')
  SEED_DEMO_CMD=$(grep -E 'go1.26.8 (test|run)' "$SD/demo/RUN.txt" | grep -v '^#' | sed -E 's#^cd [^ ]+ && ##; s/^timeout [0-9]+ //' | head -1)
  SEED_DEMO_CP=$(echo "$SEED_DEMO_CP" | sed -E "s#/tmp/seed/[A-Z][0-9]#$WT#g")
  SEED_DEMO_CMD=$(echo "$SEED_DEMO_CMD" | sed -E "s#/tmp/seed/[A-Z][0-9]#$WT#g")
fi
echo "== demo cp: $SEED_DEMO_CP"; echo "== demo cmd: $SEED_DEMO_CMD"
if [ -n "${SEED_DEMO_CP:-}" ]; then eval "$SEED_DEMO_CP"; fi
if [ -n "${SEED_DEMO_CMD:-}" ]; then
  echo "== demo WITHOUT patch"; (eval "timeout 900 $SEED_DEMO_CMD") > /tmp/seedv/$NAME.nopatch.log 2>&1; R0=$?; tail -3 /tmp/seedv/$NAME.nopatch.log; echo "exit=$R0"
fi
git apply "$SD/patch.diff" || { echo "PATCH DOES NOT APPLY"; exit 2; }
echo "== build with patch"; timeout 900 go1.26.8 build $PKGS || { echo "BUILD FAILS"; exit 2; }
if [ -n "${SEED_DEMO_CMD:-}" ]; then
  echo "== demo WITH patch"; (eval "timeout 900 $SEED_DEMO_CMD") > /tmp/seedv/$NAME.patch.log 2>&1; R1=$?; tail -5 /tmp/seedv/$NAME.patch.log; echo "exit=$R1"
fi
# existing tests with patch (demo file removed first)
rm -f $(git ls-files --others --exclude-standard | grep '_test.go$') 2>/dev/null
echo "== existing tests with patch: ${SEED_TESTS:-$PKGS}"
timeout 2400 go1.26.8 test -count=1 -vet=off ${SEED_TESTS:-$PKGS} 2>&1 | grep -v "no test files" | tail -8; RT=${PIPESTATUS[0]}
echo "tests exit=$RT"
cd /verif
echo "== check $P $TIER against the patched scratch tree (VERIF_REPO=$WT)"
VERIF_REPO="$WT" VERIF_ALT_OUT=/tmp/seedv/out_$NAME timeout 3000 ./vcheck $P $TIER > /tmp/seedv/$NAME.check.log 2>&1; RC=$?
grep -c '^VIOLATION' /tmp/seedv/$NAME.check.log; grep 'violation detail' /tmp/seedv/$NAME.check.log | head -3 | cut -c1-300; tail -2 /tmp/seedv/$NAME.check.log | cut -c1-200
echo "check exit=$RC"
echo "SUMMARY name=$NAME prop=$P demo_nopatch_exit=${R0:-NA} demo_patch_exit=${R1:-NA} tests_exit=$RT check_exit=$RC tier=$TIER"
# file it
if [ "${R0:-1}" = 0 ] && [ "${R1:-0}" != 0 ] && [ "$RT" = 0 ]; then
  D=/verif/seeded/$NAME; mkdir -p $D; cp "$SD/patch.diff" $D/; rm -rf $D/demo; cp -r "$SD/demo" $D/demo
  python3 - "$SD/meta.json" "$D/meta.json" "$P" "$TIER" "$RC" "${SEED_TESTS:-$PKGS}" <<'PY'
import json,sys
src,dst,p,tier,rc,tests=sys.argv[1:7]
try: m=json.load(open(src))
except Exception: m={}
try: old=json.load(open(dst))
except Exception: old={}
m['property']=p
m['confirmed_by_lead']={'patch_applies_and_builds':True,'existing_tests_pass_with_patch':tests,'demo_passes_without_patch':True,'demo_fails_with_patch':True}
runs=old.get('check_runs',[])
runs.append({'tier':tier,'check_exit':int(rc),'detected':int(rc)==1})
m['check_runs']=runs
m['detected']=any(r['detected'] for r in runs)
json.dump(m,open(dst,'w'),indent=1)
PY
  echo "filed under $D"
else
  echo "NOT FILED (confirmation failed)"
fi

#!/opt/veriftools/pyvenv/bin/python
import json, jsonschema, sys, glob
jsonschema.validate(json.load(open('/verif/MANIFEST.json')), json.load(open('/root/.vp/MANIFEST.schema.json')))
sch = json.load(open('/root/.vp/EVIDENCE.schema.json'))
m = json.load(open('/verif/MANIFEST.json'))
bad = 0
for c in m['checks']:
    try:
        e = json.load(open(c['evidence_file']))
        jsonschema.validate(e, sch)
        if e['level'] != c['level_claimed']['category']:
            print('LEVEL MISMATCH', c['property_id']); bad += 1
    except Exception as ex:
        print('BAD', c['property_id'], str(ex)[:300]); bad += 1
print('manifest ok; evidence bad =', bad)
